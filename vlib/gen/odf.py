"""Hand-written OpenDocument writers (odt, odp, ods, odg) with recorded ground truth."""
from __future__ import annotations

import io
import random
import zipfile
from xml.sax.saxutils import escape

from .expect import Expect
from .ooxml import _rand_image
from .tokens import Tokens

NSDECL = (
    'xmlns:office="urn:oasis:names:tc:opendocument:xmlns:office:1.0" '
    'xmlns:style="urn:oasis:names:tc:opendocument:xmlns:style:1.0" '
    'xmlns:text="urn:oasis:names:tc:opendocument:xmlns:text:1.0" '
    'xmlns:table="urn:oasis:names:tc:opendocument:xmlns:table:1.0" '
    'xmlns:draw="urn:oasis:names:tc:opendocument:xmlns:drawing:1.0" '
    'xmlns:fo="urn:oasis:names:tc:opendocument:xmlns:xsl-fo-compatible:1.0" '
    'xmlns:xlink="http://www.w3.org/1999/xlink" xmlns:dc="http://purl.org/dc/elements/1.1/" '
    'xmlns:meta="urn:oasis:names:tc:opendocument:xmlns:meta:1.0" '
    'xmlns:svg="urn:oasis:names:tc:opendocument:xmlns:svg-compatible:1.0" '
    'xmlns:presentation="urn:oasis:names:tc:opendocument:xmlns:presentation:1.0" '
    'office:version="1.2"'
)

MIMES = {
    "odt": "application/vnd.oasis.opendocument.text",
    "odp": "application/vnd.oasis.opendocument.presentation",
    "ods": "application/vnd.oasis.opendocument.spreadsheet",
    "odg": "application/vnd.oasis.opendocument.graphics",
}

def _annotation(exp, tk, arng=None) -> str:
    """An office:annotation whose comment text is plain paragraphs and, in part, a bulleted list (legal annotation content); all of it
    is comment text (class m: never in the default full text)."""
    arng = arng or random.Random(f"annotation:{tk.n}")
    parts = [f"<text:p>{exp.out(tk.new('m'))}</text:p>"]
    if arng.random() < 0.5:
        items = "".join(f"<text:list-item><text:p>{exp.out(tk.new('m'))}</text:p></text:list-item>" for _ in range(arng.randint(1, 2)))
        parts.insert(arng.randrange(2), f"<text:list>{items}</text:list>")
    if arng.random() < 0.3:
        parts.append(f"<text:p>{exp.out(tk.new('m'))}</text:p>")
    return "<office:annotation><dc:creator>rev</dc:creator><dc:date>2024-01-01T00:00:00</dc:date>" + "".join(parts) + "</office:annotation>"


ODT_FEATURES = {
    "no-meta": "package without the optional meta.xml (twin: present)",
    "tracked-deletion": "text:tracked-changes with a deletion paragraph (twin: no tracked changes)",
    "nested-list": "a text:list inside a text:list-item (twin: flat list)",
    "nested-table": "table inside a table cell (twin: sequential tables)",
    "textbox-two-paras": "text box with two paragraphs anchored in an empty paragraph (twin: one paragraph)",
    "textbox-in-text": "a text box anchored as character in the middle of a paragraph, text before and directly after the frame (twin: the trailing text in a paragraph of its own)",
    "header-rows": "first row inside table:table-header-rows (twin: plain row)",
    "space-count": "text:s text:c=3 between two tokens (twin: one plain space)",
    "heading-in-list": "text:h inside a list item (twin: text:p)",
    "note-with-headings": "footnote / annotation inside a paragraph of a document that has headings (twin: no headings)",
    "empty-section": "a heading directly followed by a heading of the same level, i.e. a section without body text (twin: one paragraph between them)",
    "empty-table": "a table whose cells are all empty between two filled tables (twin: its first cell is filled)",
}
ODP_FEATURES = {
    "no-meta": "package without the optional meta.xml (twin: present)",
    "notes-only-slide": "slide whose only text is in speaker notes (twin: no notes)",
    "table-header-rows": "table with table:table-header-rows (twin: plain rows)",
    "text-outside-frame": "text in draw:custom-shape instead of draw:frame (twin: draw:frame text box)",
    "two-line-title": "a title text box with two paragraphs in the title style (twin: second paragraph in the body style)",
    "linked-image": "a picture frame linking ../Pictures/x outside the package while Pictures/x is an embedded part (twin: no such frame)",
    "shared-picture": "one package picture (a logo) placed by a frame on every slide (twin: a copy of the picture per slide, under its own name)",
}
ODS_FEATURES = {
    "no-meta": "package without the optional meta.xml (twin: present)",
    "header-rows": "first row in table:table-header-rows (twin: plain row)",
    "row-group": "rows inside table:table-row-group (twin: plain rows)",
    "cell-annotation": "office:annotation inside a string cell (twin: no annotation)",
    "covered-cell": "merged cell followed by table:covered-table-cell (twin: plain empty cell)",
    "wide-merge": "a cell merged over three or four columns, its covered cells written as one table:covered-table-cell with number-columns-repeated, and a value to the right of the merge (twin: the covered cells written one by one)",
    "repeated-cell": "table:number-columns-repeated=3 on a string cell (twin: three literal cells)",
    "repeated-row": "table:number-rows-repeated=2 on a data row (twin: two literal rows)",
    "empty-sheet": "a sheet without content (one repeated empty filler row, as LibreOffice writes it) among other sheets (twin: one string cell)",
    "shared-picture": "one package picture (a logo) placed by a frame on every sheet next to a picture of the sheet's own (twin: a copy of the logo per sheet under its own name)",
    "missing-picture-part": "three picture frames on one sheet, the middle one's picture part is not in the package (twin: all three are)",
    "sub-table": "a cell holding a sub-table (table:is-sub-table) with two rows (twin: the same two paragraphs directly in the cell)",
    "dde-link": "the cached table of a DDE link after the sheets (a table:table that is not a sheet) (twin: none)",
    "nan-cell": "a float cell with office:value=\"NaN\" (legal xsd:double) (twin: 0.5)",
    "inf-cell": "a float cell with office:value=\"INF\" or \"-INF\" (legal xsd:double) (twin: 0.5)",
}
ODG_FEATURES = {"no-meta": "package without the optional meta.xml (twin: present)"}   # the same picture placed twice is returned once (deduplicated by href): multiplicity of shared media is unclaimed


def _pkg(kind: str, content: str, meta: str | None, styles: str | None, files: dict[str, bytes]) -> bytes:
    bio = io.BytesIO()
    dt = (2024, 1, 2, 3, 4, 6)
    with zipfile.ZipFile(bio, "w") as z:
        z.writestr(zipfile.ZipInfo("mimetype", date_time=dt), MIMES[kind], zipfile.ZIP_STORED)
        man = [f'<manifest:file-entry manifest:full-path="/" manifest:media-type="{MIMES[kind]}"/>',
               '<manifest:file-entry manifest:full-path="content.xml" manifest:media-type="text/xml"/>',
               ] + (['<manifest:file-entry manifest:full-path="meta.xml" manifest:media-type="text/xml"/>'] if meta else [])
        if styles:
            man.append('<manifest:file-entry manifest:full-path="styles.xml" manifest:media-type="text/xml"/>')
        for name in files:
            man.append(f'<manifest:file-entry manifest:full-path="{name}" manifest:media-type="image/unknown"/>')
        z.writestr(zipfile.ZipInfo("content.xml", date_time=dt), content, zipfile.ZIP_DEFLATED)
        if meta:        # meta.xml is optional
            z.writestr(zipfile.ZipInfo("meta.xml", date_time=dt), meta, zipfile.ZIP_DEFLATED)
        if styles:
            z.writestr(zipfile.ZipInfo("styles.xml", date_time=dt), styles, zipfile.ZIP_DEFLATED)
        for name, data in files.items():
            z.writestr(zipfile.ZipInfo(name, date_time=dt), data, zipfile.ZIP_DEFLATED)
        z.writestr(zipfile.ZipInfo("META-INF/manifest.xml", date_time=dt),
                   '<?xml version="1.0" encoding="UTF-8"?><manifest:manifest xmlns:manifest="urn:oasis:names:tc:opendocument:xmlns:manifest:1.0" manifest:version="1.2">'
                   + "".join(man) + "</manifest:manifest>", zipfile.ZIP_DEFLATED)
    return bio.getvalue()


def _meta(tk, exp, rng) -> str:
    payloads = ["", " é&<>", " 😀", " אב", " Generation Z", " A-Z", " v1.0", " 2024-01-02T03:04:05Z", " 100%", " (draft)", " +00:00"]
    m = {k: exp.ignore(tk.new("t")) + rng.choice(payloads) for k in ("title", "author", "subject", "keywords", "description")}
    exp.meta = dict(m)
    return (f'<?xml version="1.0" encoding="UTF-8"?><office:document-meta {NSDECL}><office:meta>'
            f'<dc:title>{escape(m["title"])}</dc:title><dc:creator>{escape(m["author"])}</dc:creator><dc:subject>{escape(m["subject"])}</dc:subject>'
            f'<meta:keyword>{escape(m["keywords"])}</meta:keyword><dc:description>{escape(m["description"])}</dc:description>'
            '<meta:creation-date>2024-01-02T03:04:05</meta:creation-date><dc:date>2024-02-03T04:05:06</dc:date></office:meta></office:document-meta>')


def _frame_image(rng, files, exp, idx, unit, x="1cm", y="1cm", reuse=None, missing=False):
    im = reuse or _rand_image(rng, idx)
    # part names are case-sensitive and free-form: camera / scanner / Windows producers keep names such as PHOTO_1.PNG, Scan_2.Jpg
    ext = random.Random(f"odf-picture-name:{idx}:{im['sha'][:6]}").choice([im["ext"]] * 6 + [im["ext"].upper()] * 3 + [im["ext"].title()])
    name = f"Pictures/img{idx}{ext}" if reuse is None else reuse["name"]
    ctype = im["ctype"]
    if reuse is None and random.Random(f"odf-picture-untyped:{idx}:{im['sha'][:6]}").random() < 0.12:
        # LibreOffice's replacement images have no extension at all, other producers use extensions no MIME table knows: the type of
        # such a part is not claimed, the rest of the image interface is
        name = random.Random(f"odf-picture-untyped-name:{idx}").choice([f"ObjectReplacements/Object {idx}", f"Pictures/img{idx}.met", f"Pictures/img{idx}"])
        ctype = None
    im["name"] = name
    if "." not in name.rsplit("/", 1)[-1] or name.rsplit(".", 1)[-1].lower() not in ("png", "jpg", "jpeg", "gif", "bmp"):
        ctype = None        # (also for a re-used picture stored under an untyped name)
    if not missing:
        files[name] = im["data"]
    # the frame's size in any of the ODF length units; the reported pixel size is that length at 96 dpi (quarter inches: exact in every unit)
    srng = random.Random(f"odf-frame-size:{idx}:{im['sha'][:6]}:{unit}")
    kw, kh = srng.randint(1, 12), srng.randint(1, 12)
    u = srng.choice(["cm", "cm", "cm", "in", "mm", "pt", "pc"])
    per_quarter_inch = {"cm": 0.635, "in": 0.25, "mm": 6.35, "pt": 18, "pc": 1.5}[u]

    def length(k):
        txt = f"{round(k * per_quarter_inch, 3):g}"
        if srng.random() < 0.4:
            # the other legal spellings of an ODF length: no digit before, or none after, the decimal point
            txt = txt[1:] if txt.startswith("0.") else (txt + "." if "." not in txt else txt)
        return f"{txt}{u}"
    if not missing:       # a frame whose picture part is absent cannot yield an image; the others are numbered 1..n
        exp.images.append({"sha": im["sha"], "ctype": ctype, "w": 24 * kw, "h": 24 * kh, "unit": unit})
    return (f'<draw:frame draw:name="Image{idx}" svg:x="{x}" svg:y="{y}" svg:width="{length(kw)}" svg:height="{length(kh)}"><draw:image xlink:href="{name}" xlink:type="simple"/></draw:frame>', im)


# ============================================================================================= ODT

def build_odt(seed: int, feature: str | None = None, twin: bool = False):
    rng = random.Random(f"odt:{seed}")
    tk = Tokens()
    exp = Expect("odt")
    exp.literals = []   # every non-token visible string this writer emits: the rest of the output must hold no letter or digit (C02 'no text that is not in the source')
    exp.unit_mode = "one-or-sections"
    exp.tables_claimed = True
    exp.images_claimed = True
    if feature:
        exp.features.add(feature if not twin else feature + "#twin")
    risky = feature if not twin else None
    meta = _meta(tk, exp, rng)
    files: dict[str, bytes] = {}
    body: list[str] = []
    use_headings = rng.random() < 0.5
    if feature == "note-with-headings":
        use_headings = not twin
    if feature in ("heading-in-list", "empty-section"):
        use_headings = True      # the risky form adds a heading: keep the twin comparable and notes out (see note-with-headings)
    allow_notes = (not use_headings) or feature == "note-with-headings"
    n_img = 0

    def w(cls, lo=1, hi=3, heading=False):
        return [exp.text(tk.new(cls), 0, heading) for _ in range(rng.randint(lo, hi))]

    def inline(cls="b"):
        out = []
        for _ in range(rng.randint(1, 3)):
            k = rng.random()
            if k < 0.5:
                out.append(" ".join(w(cls)) + " ")
            elif k < 0.62:
                out.append(f'<text:span text:style-name="T1">{" ".join(w(cls, 1, 2))}</text:span> ')
            elif k < 0.72:
                out.append(f'<text:a xlink:type="simple" xlink:href="https://example.org/">{" ".join(w("k", 1, 2))}</text:a> ')
            elif k < 0.8:
                out.append(f'{w(cls, 1, 1)[0]}<text:tab/>{w(cls, 1, 1)[0]} ')
            elif k < 0.86:
                out.append(f'{w(cls, 1, 1)[0]}<text:line-break/>{w(cls, 1, 1)[0]} ')
            elif not allow_notes:
                out.append(" ".join(w(cls, 1, 2)) + " ")
            elif k < 0.92:
                n = exp.out(tk.new("n"))
                out.append(f'{w(cls, 1, 1)[0]}<text:note text:id="ftn{rng.randint(1, 999)}" text:note-class="footnote"><text:note-citation>1</text:note-citation><text:note-body><text:p>{n}</text:p></text:note-body></text:note> ')
            else:
                out.append(f'{w(cls, 1, 1)[0]}{_annotation(exp, tk)} ')
        return "".join(out)

    def para(cls="b"):
        return f'<text:p text:style-name="Standard">{inline(cls)}</text:p>'

    def table(rows, cols, nested=None, header_rows=False, blank=None):
        """blank: None = random empty cells; "all" = every cell empty; "all-but-first" = its control twin."""
        grid, xml = [], [f'<table:table table:name="T{rng.randint(1, 9999)}"><table:table-column table:number-columns-repeated="{cols}"/>']
        for i in range(rows):
            cells, grow = [], []
            for j in range(cols):
                if (rng.random() < 0.12 and (i or j)) if blank is None else (blank == "all" or (i, j) != (0, 0)):
                    cells.append("<table:table-cell/>" if blank is None else '<table:table-cell><text:p text:style-name="Table_20_Contents"/></table:table-cell>')
                    grow.append({"empty": True})
                    continue
                t = w("c", 1, 2)
                inner = f'<text:p text:style-name="Table_20_Contents">{" ".join(t)}</text:p>'
                if nested is not None and i == 0 and j == 0:
                    inner += nested()
                cells.append(f'<table:table-cell office:value-type="string">{inner}</table:table-cell>')
                grow.append({"toks": t})
            row = f'<table:table-row>{"".join(cells)}</table:table-row>'
            if header_rows and i == 0:
                row = f"<table:table-header-rows>{row}</table:table-header-rows>"
            xml.append(row)
            grid.append(grow)
        xml.append("</table:table>")
        return "".join(xml), grid

    def flist(nested=False, heading_item=False):
        items = []
        for i in range(3 if heading_item else rng.randint(2, 3)):    # (the heading item is followed by an ordinary item: an empty section is its own feature)
            if heading_item and i == 1:      # (decided before any token of the item is recorded)
                inner = f'<text:h text:outline-level="2">{" ".join(w("h", 1, 1, True))}</text:h>'
            else:
                inner = f'<text:p text:style-name="List">{" ".join(w("l", 1, 2))}</text:p>'
            if nested and i == 0:
                inner += f'<text:list><text:list-item><text:p text:style-name="List">{" ".join(w("l", 1, 2))}</text:p></text:list-item></text:list>'
            items.append(f"<text:list-item>{inner}</text:list-item>")
        return f'<text:list text:style-name="L1">{"".join(items)}</text:list>'

    def textbox(two=False):
        ps = f'<text:p>{" ".join(w("x", 1, 2))}</text:p>'
        if two:
            ps += f'<text:p>{" ".join(w("x", 1, 2))}</text:p>'
        return f'<text:p text:style-name="Standard"><draw:frame draw:name="Frame" svg:width="3cm" svg:height="1cm"><draw:text-box>{ps}</draw:text-box></draw:frame></text:p>'

    if risky == "tracked-deletion":
        d = exp.out(tk.new("d"))
        body.append(f'<text:tracked-changes><text:changed-region text:id="ct1"><text:deletion><office:change-info><dc:creator>rev</dc:creator><dc:date>2024-01-01T00:00:00</dc:date></office:change-info><text:p>{d}</text:p></text:deletion></text:changed-region></text:tracked-changes>')
    n_blocks = rng.randint(3, 10)
    feature_at = n_blocks // 2
    started = False
    for b in range(n_blocks):
        if use_headings and (not started or rng.random() < 0.25):
            started = True
            body.append(f'<text:h text:style-name="Heading_20_1" text:outline-level="{rng.randint(1, 3) if b else 1}">{" ".join(w("h", 1, 2, True))}</text:h>')
            body.append(para())
            continue
        k = rng.random()
        if k < 0.45:
            body.append(para())
        elif k < 0.6:
            body.append(flist())
        elif k < 0.78:
            xml, grid = table(rng.randint(1, 4), rng.randint(1, 4))
            body.append(xml)
            exp.tables.append({"grid": grid})
            body.append(para())
        elif k < 0.9:
            n_img += 1
            fx, _ = _frame_image(rng, files, exp, n_img, None)
            body.append(f'<text:p text:style-name="Standard">{fx}</text:p>')
        else:
            body.append(textbox())
        if feature and b == feature_at:
            if feature == "tracked-deletion":
                body.append(para() if twin else f'<text:p text:style-name="Standard"><text:change text:change-id="ct1"/>{inline()}</text:p>')
            elif feature == "nested-list":
                body.append(flist(nested=not twin))
            elif feature == "nested-table":
                if twin:
                    o, og = table(2, 2)
                    mid = para()
                    i_, ig = table(2, 2)
                    exp.tables += [{"grid": og}, {"grid": ig}]
                    body.append(o + mid + i_)
                else:
                    o, og = table(2, 2, nested=lambda: table(2, 2)[0])
                    exp.nested_tables = 2
                    exp.tables_claimed = False
                    body.append(o)
            elif feature == "empty-table":
                for k, bl in enumerate((None, "all-but-first" if twin else "all", None)):
                    xml, g = table(2, 2 + (k == 1), blank=bl)
                    exp.tables.append({"grid": g})
                    body.append(xml)
                    body.append(para())
            elif feature == "textbox-in-text":
                # a frame anchored in the middle of a paragraph's text: lead text, box paragraph(s), trailing text - compact XML
                lead, tail = w("b", 1, 1)[0], None
                box = "".join(f"<text:p>{' '.join(w('x', 1, 2))}</text:p>" for _ in range(2))
                tail = w("b", 1, 1)[0]
                fr = f'<draw:frame draw:name="Frame" text:anchor-type="as-char" svg:width="3cm" svg:height="1cm"><draw:text-box>{box}</draw:text-box></draw:frame>'
                body.append(f'<text:p text:style-name="Standard">{lead} {fr}{tail}</text:p>' if not twin else f'<text:p text:style-name="Standard">{lead} {fr}</text:p><text:p text:style-name="Standard">{tail}</text:p>')
            elif feature == "textbox-two-paras":
                body.append(textbox(two=not twin))
            elif feature == "header-rows":
                xml, grid = table(3, 2, header_rows=not twin)
                exp.tables.append({"grid": grid})
                body.append(xml)
            elif feature == "space-count":
                a, b2 = w("b", 1, 1)[0], w("b", 1, 1)[0]
                body.append(f'<text:p>{a} {b2}</text:p>' if twin else f'<text:p>{a}<text:s text:c="3"/>{b2}</text:p>')
            elif feature == "heading-in-list":
                body.append(flist(heading_item=not twin))
            elif feature == "empty-section":
                body.append(f'<text:h text:style-name="Heading_20_1" text:outline-level="1">{" ".join(w("h", 1, 2, True))}</text:h>')
                if twin:
                    body.append(para())
                body.append(f'<text:h text:style-name="Heading_20_1" text:outline-level="1">{" ".join(w("h", 1, 2, True))}</text:h>')
                body.append(para())
            elif feature == "note-with-headings":
                n = exp.out(tk.new("n"))
                body.append(f'<text:p>{w("b", 1, 1)[0]}<text:note text:id="ftnX" text:note-class="footnote"><text:note-citation>1</text:note-citation><text:note-body><text:p>{n}</text:p></text:note-body></text:note> '
                            f'{w("b", 1, 1)[0]}{_annotation(exp, tk)}</text:p>')
    body.append(para())
    hdr, ftr = exp.out(tk.new("f")), exp.out(tk.new("f"))
    styles = (f'<?xml version="1.0" encoding="UTF-8"?><office:document-styles {NSDECL}><office:styles><style:style style:name="Standard" style:family="paragraph"/>'
              '<style:style style:name="Heading_20_1" style:family="paragraph"/></office:styles><office:master-styles><style:master-page style:name="Standard">'
              f'<style:header><text:p>{hdr}</text:p></style:header><style:footer><text:p>{ftr}</text:p></style:footer></style:master-page></office:master-styles></office:document-styles>')
    content = (f'<?xml version="1.0" encoding="UTF-8"?><office:document-content {NSDECL}><office:automatic-styles><style:style style:name="T1" style:family="text"/></office:automatic-styles>'
               f'<office:body><office:text>{"".join(body)}</office:text></office:body></office:document-content>')
    if risky == "no-meta":
        meta, exp.meta = None, {}
    return _pkg("odt", content, meta, styles, files), exp


# ============================================================================================= ODP

def build_odp(seed: int, feature: str | None = None, twin: bool = False):
    rng = random.Random(f"odp:{seed}")
    tk = Tokens()
    exp = Expect("odp")
    exp.literals = []   # every non-token visible string this writer emits: the rest of the output must hold no letter or digit (C02 'no text that is not in the source')
    exp.unit_mode = "exact"
    exp.join_equality = True
    exp.tables_claimed = True
    exp.images_claimed = True
    if feature:
        exp.features.add(feature if not twin else feature + "#twin")
    risky = feature if not twin else None
    meta = _meta(tk, exp, rng)
    files: dict[str, bytes] = {}
    n_slides = rng.randint(1, 6)
    pages = []
    feature_slide = rng.randrange(n_slides)
    n_img = 0
    logo = None
    cell_rng = random.Random(f"odp-cells:{seed}")
    if feature == "shared-picture":
        n_slides = max(2, n_slides)
    for s in range(n_slides):
        frames = []
        y = 1.0
        empty = rng.random() < 0.12 and n_slides > 1 and s != feature_slide and feature != "shared-picture"
        if feature == "notes-only-slide" and s == feature_slide:
            empty = True

        def w(cls, lo=1, hi=3, heading=False):
            return [exp.text(tk.new(cls), s, heading) for _ in range(rng.randint(lo, hi))]

        def frame(ps, cls=None):
            nonlocal y
            y += 2
            c = f' presentation:class="{cls}"' if cls else ""
            return f'<draw:frame{c} svg:x="1cm" svg:y="{y}cm" svg:width="20cm" svg:height="1.5cm"><draw:text-box>{ps}</draw:text-box></draw:frame>'

        if not empty:
            # documented order inside a slide: title, body paragraphs, other paragraphs -> generate in that order
            if feature == "two-line-title" and s == feature_slide:
                # a title of two paragraphs, both in the title style (twin: the second line in the body style)
                a = " ".join(w("h", 1, 2, True))
                b2 = " ".join(w("h" if not twin else "b", 1, 2, not twin))
                frames.append(frame(f'<text:p text:style-name="TitleText">{a}</text:p><text:p text:style-name="{"TitleText" if not twin else "BodyText"}">{b2}</text:p>', "title"))
            elif rng.random() < 0.8:
                frames.append(frame(f'<text:p text:style-name="TitleText">{" ".join(w("h", 1, 2, True))}</text:p>', "title"))
            # (the reader groups a slide's text as title, body, other: on the two-line-title slide nothing else is written, so
            #  that grouping cannot reorder anything and only presence / attribution of the second line is judged)
            only_title = feature == "two-line-title" and s == feature_slide
            for _ in range(0 if only_title else rng.randint(0, 2)):
                ps = "".join(f'<text:p text:style-name="BodyText">{" ".join(w("b"))} <text:span>{" ".join(w("b", 1, 1))}</text:span></text:p>' for _ in range(rng.randint(1, 3)))
                frames.append(frame(ps, "outline"))
            for _ in range(0 if only_title else rng.randint(0, 2)):
                if rng.random() < 0.5:
                    frames.append(frame(f'<text:p text:style-name="P9">{" ".join(w("x", 1, 2))}</text:p>'))
                else:
                    items = "".join(f'<text:list-item><text:p text:style-name="P9">{" ".join(w("l", 1, 2))}</text:p></text:list-item>' for _ in range(rng.randint(1, 3)))
                    frames.append(frame(f"<text:list>{items}</text:list>"))
            if (rng.random() < 0.3 and not only_title) or (feature == "table-header-rows" and s == feature_slide):
                rows, cols = rng.randint(2, 3), rng.randint(1, 3)
                grid, trs = [], []
                for i in range(rows):
                    grow, tcs = [], []
                    for j in range(cols):
                        t = [exp.table_only(tk.new("c"), s) for _ in range(rng.randint(1, 2))]
                        shape = cell_rng.random()
                        if shape < 0.8:
                            tcs.append(f'<table:table-cell><text:p>{" ".join(t)}</text:p></table:table-cell>')
                        elif shape < 0.9:
                            # a bulleted cell, as Impress writes it: the paragraphs sit in list items
                            items = "".join(f"<text:list-item><text:p>{x}</text:p></text:list-item>" for x in t)
                            tcs.append(f"<table:table-cell><text:list>{items}</text:list></table:table-cell>")
                        else:
                            # a plain paragraph followed by a bullet
                            extra = exp.table_only(tk.new("c"), s)
                            tcs.append(f'<table:table-cell><text:p>{" ".join(t)}</text:p><text:list><text:list-item><text:p>{extra}</text:p></text:list-item></text:list></table:table-cell>')
                            t = t + [extra]
                        grow.append({"toks": t})
                    grid.append(grow)
                    tr = f'<table:table-row>{"".join(tcs)}</table:table-row>'
                    if risky == "table-header-rows" and s == feature_slide and i == 0:
                        tr = f"<table:table-header-rows>{tr}</table:table-header-rows>"
                    trs.append(tr)
                y += 2
                frames.append(f'<draw:frame svg:x="1cm" svg:y="{y}cm" svg:width="20cm" svg:height="3cm"><table:table>{"<table:table-column/>" * cols}{"".join(trs)}</table:table></draw:frame>')
                exp.tables.append({"grid": grid, "unit": s + 1})
            if rng.random() < 0.35:
                n_img += 1
                y += 2
                fx, _ = _frame_image(rng, files, exp, n_img, s + 1, y=f"{y}cm")
                frames.append(fx)
            if rng.random() < 0.2:
                frames.append(_annotation(exp, tk))
        if feature == "linked-image" and s == feature_slide:
            # a picture frame that LINKS a file outside the package (parent-relative href) while the package holds a part with the
            # same trailing path: the linked file is not part of the document (twin: no such frame)
            if not any(k.startswith("Pictures/") for k in files):
                n_img += 1
                y += 2
                fx, _ = _frame_image(rng, files, exp, n_img, s + 1, y=f"{y}cm")
                frames.append(fx)
            inner = sorted(k for k in files if k.startswith("Pictures/"))[0]
            if not twin:
                frames.append(f'<draw:frame draw:name="Linked" svg:x="5cm" svg:y="15cm" svg:width="2cm" svg:height="2cm"><draw:image xlink:href="../{inner}" xlink:type="simple"/></draw:frame>')
        if feature == "shared-picture":
            n_img += 1
            y += 2
            if logo is None:
                fx, logo = _frame_image(rng, files, exp, n_img, s + 1, x="12cm", y=f"{y}cm")
            elif twin:
                copy = dict(logo)
                copy.pop("name", None)
                fx, _ = _frame_image(rng, files, exp, n_img, s + 1, x="12cm", y=f"{y}cm", reuse=dict(copy, name=f"Pictures/logo-copy{n_img}{logo['ext']}"))
            else:
                fx, _ = _frame_image(rng, files, exp, n_img, s + 1, x="12cm", y=f"{y}cm", reuse=logo)
            frames.append(fx)
        if feature == "text-outside-frame" and s == feature_slide:
            t = " ".join(w("x", 1, 2))
            if twin:
                frames.append(frame(f'<text:p text:style-name="P9">{t}</text:p>'))
            else:
                frames.append(f'<draw:custom-shape svg:x="1cm" svg:y="18cm" svg:width="5cm" svg:height="1cm"><text:p>{t}</text:p></draw:custom-shape>')
        notes = ""
        want_notes = rng.random() < 0.4
        if feature == "notes-only-slide" and s == feature_slide:
            want_notes = not twin
        if want_notes:
            n = exp.out(tk.new("n"))
            # presentation:class on the notes frame is optional (LibreOffice writes it, minimal writers do not)
            ncls = ' presentation:class="notes"' if rng.random() < 0.5 else ""
            notes = f'<presentation:notes><draw:frame{ncls} svg:x="1cm" svg:y="1cm"><draw:text-box><text:p>{n}</text:p></draw:text-box></draw:frame></presentation:notes>'
        pages.append(f'<draw:page draw:name="page{s + 1}" draw:master-page-name="Default">{"".join(frames)}{notes}</draw:page>')
    exp.n_units = n_slides
    content = (f'<?xml version="1.0" encoding="UTF-8"?><office:document-content {NSDECL}><office:body><office:presentation>{"".join(pages)}</office:presentation></office:body></office:document-content>')
    if risky == "no-meta":
        meta, exp.meta = None, {}
    return _pkg("odp", content, meta, None, files), exp


# ============================================================================================= ODS

def build_ods(seed: int, feature: str | None = None, twin: bool = False):
    rng = random.Random(f"ods:{seed}")
    tk = Tokens()
    exp = Expect("ods")
    exp.unit_mode = "exact"
    exp.join_equality = True
    exp.tables_claimed = True
    exp.images_claimed = True
    if feature:
        exp.features.add(feature if not twin else feature + "#twin")
    risky = feature if not twin else None
    meta = _meta(tk, exp, rng)
    files: dict[str, bytes] = {}
    n_sheets = rng.randint(1, 4)
    if feature in ("empty-sheet", "shared-picture"):
        n_sheets = max(2, n_sheets)
    feature_sheet = rng.randrange(n_sheets)
    tables = []
    n_img = 0
    ods_logo = None
    for s in range(n_sheets):
        name = exp.text(tk.new("s"), s)
        rows, cols = rng.randint(2, 6), rng.randint(2, 5)
        grid, trs = [], []
        is_f = feature is not None and s == feature_sheet
        if is_f and feature == "wide-merge":
            cols = max(cols, 5)
        if is_f and feature == "empty-sheet":
            rows = 0        # a sheet that holds nothing but LibreOffice's one empty filler row (twin: one string cell)
        for i in range(rows):
            cells, grow = [], []
            j = 0
            # a totals row that sums to zero: the last row holds only 0 / 0.0 / false values
            zero_row = i == rows - 1 and not is_f and rows >= 3 and rng.random() < 0.2
            while j < cols:
                guard = j == 0 or (i == 0) or (j == cols - 1 and i == rows - 1)
                k = rng.random()
                if zero_row:
                    z = rng.choice([("0", 0), ("0.0", 0.0), (None, False)])
                    if z[0] is not None:
                        cells.append(f'<table:table-cell office:value-type="float" office:value="{z[0]}"><text:p>{z[0]}</text:p></table:table-cell>')
                    else:
                        cells.append('<table:table-cell office:value-type="boolean" office:boolean-value="false"><text:p>FALSE</text:p></table:table-cell>')
                    grow.append({"v": z[1]})
                    j += 1
                    continue
                if is_f and feature == "repeated-cell" and i == 1 and j == 0 and cols >= 3:
                    t = exp.text(tk.new("c"), s)
                    if twin:
                        t2, t3 = exp.text(tk.new("c"), s), exp.text(tk.new("c"), s)
                        cells.append("".join(f'<table:table-cell office:value-type="string"><text:p>{x}</text:p></table:table-cell>' for x in (t, t2, t3)))
                        grow += [{"toks": [t]}, {"toks": [t2]}, {"toks": [t3]}]
                    else:
                        cells.append(f'<table:table-cell table:number-columns-repeated="3" office:value-type="string"><text:p>{t}</text:p></table:table-cell>')
                        grow += [{"any": True}] * 3
                        exp.ignore(t)
                    j += 3
                    continue
                if is_f and feature == "wide-merge" and i == 1 and j == 0:
                    span = 3 + (tk.n % 2)
                    t, t2 = exp.text(tk.new("c"), s), exp.text(tk.new("c"), s)
                    covered = "<table:covered-table-cell/>" * (span - 1) if twin else f'<table:covered-table-cell table:number-columns-repeated="{span - 1}"/>'
                    cells.append(f'<table:table-cell table:number-columns-spanned="{span}" office:value-type="string"><text:p>{t}</text:p></table:table-cell>{covered}'
                                 f'<table:table-cell office:value-type="string"><text:p>{t2}</text:p></table:table-cell>')
                    grow += [{"toks": [t]}] + [{"empty": True}] * (span - 1) + [{"toks": [t2]}]
                    j += span + 1
                    continue
                if is_f and feature == "covered-cell" and i == 1 and j == 0:
                    t = exp.text(tk.new("c"), s)
                    if twin:
                        cells.append(f'<table:table-cell office:value-type="string"><text:p>{t}</text:p></table:table-cell><table:table-cell/>')
                    else:
                        cells.append(f'<table:table-cell table:number-columns-spanned="2" office:value-type="string"><text:p>{t}</text:p></table:table-cell><table:covered-table-cell/>')
                    grow += [{"toks": [t]}, {"empty": True}]
                    j += 2
                    continue
                if is_f and feature in ("nan-cell", "inf-cell") and i == 1 and j == 0:
                    # xsd:double admits the special values NaN, INF and -INF; what the cell value becomes is unclaimed,
                    # the rest of the sheet must come through (twin: an ordinary number)
                    lit = "0.5" if twin else ("NaN" if feature == "nan-cell" else rng.choice(["INF", "-INF"]))
                    cells.append(f'<table:table-cell office:value-type="float" office:value="{lit}"><text:p>{lit}</text:p></table:table-cell>')
                    grow.append({"v": 0.5} if twin else {"any": True})
                    j += 1
                    continue
                if is_f and feature == "sub-table" and i == 1 and j == 0:
                    # a cell holding a sub-table (table:is-sub-table): its text belongs to this sheet, it is not a sheet of its own
                    a, b2 = exp.text(tk.new("c"), s), exp.text(tk.new("c"), s)
                    if twin:
                        cells.append(f'<table:table-cell office:value-type="string"><text:p>{a}</text:p><text:p>{b2}</text:p></table:table-cell>')
                    else:
                        cells.append(f'<table:table-cell><table:table table:name="Inner{s}" table:is-sub-table="true"><table:table-column/><table:table-row><table:table-cell office:value-type="string"><text:p>{a}</text:p></table:table-cell></table:table-row>'
                                     f'<table:table-row><table:table-cell office:value-type="string"><text:p>{b2}</text:p></table:table-cell></table:table-row></table:table></table:table-cell>')
                    grow.append({"any": True})
                    j += 1
                    continue
                if is_f and feature == "cell-annotation" and i == 1 and j == 0:
                    t = exp.text(tk.new("c"), s)
                    ann = "" if twin else _annotation(exp, tk)
                    # (LibreOffice writes the annotation first; either order is legal)
                    cells.append(f'<table:table-cell office:value-type="string">{ann}<text:p>{t}</text:p></table:table-cell>' if tk.n % 3 else
                                 f'<table:table-cell office:value-type="string"><text:p>{t}</text:p>{ann}</table:table-cell>')
                    grow.append({"toks": [t]})
                    j += 1
                    continue
                if k < 0.12 and not guard:
                    cells.append("<table:table-cell/>")
                    grow.append({"empty": True})
                elif k < 0.55 or i == 0:
                    t = exp.text(tk.new("c"), s)
                    cells.append(f'<table:table-cell office:value-type="string"><text:p>{t}</text:p></table:table-cell>')
                    grow.append({"toks": [t]})
                elif k < 0.7:
                    v = rng.randint(-10**6, 10**6)
                    cells.append(f'<table:table-cell office:value-type="float" office:value="{v}"><text:p>{v}</text:p></table:table-cell>')
                    grow.append({"v": v})
                elif k < 0.8:
                    v = rng.choice([0.5, 1.25, -3.75, 1234.5])
                    cells.append(f'<table:table-cell office:value-type="float" office:value="{v}"><text:p>{v}</text:p></table:table-cell>')
                    grow.append({"v": v})
                elif k < 0.83:
                    # legal xsd:double spellings of office:value: exponent notation with and without a decimal point, zero values
                    lit, v = rng.choice([("1E+20", 1e20), ("5e-05", 5e-05), ("1E+3", 1000.0), ("6.02E+23", 6.02e23), ("0", 0), ("0.0", 0.0), ("-0", 0), ("+7", 7), ("1.", 1.0), (".5", 0.5)])
                    cells.append(f'<table:table-cell office:value-type="float" office:value="{lit}"><text:p>{lit}</text:p></table:table-cell>')
                    grow.append({"v": v})
                elif k < 0.87:
                    v = rng.random() < 0.5
                    cells.append(f'<table:table-cell office:value-type="boolean" office:boolean-value="{str(v).lower()}"><text:p>{str(v).upper()}</text:p></table:table-cell>')
                    grow.append({"v": v})
                elif k < 0.94:
                    d = f"20{rng.randint(10, 29)}-0{rng.randint(1, 9)}-1{rng.randint(0, 9)}"
                    cells.append(f'<table:table-cell office:value-type="date" office:date-value="{d}"><text:p>{d}</text:p></table:table-cell>')
                    grow.append({"v": d})
                else:
                    d = f"PT0{rng.randint(1, 9)}H1{rng.randint(0, 9)}M00S"
                    cells.append(f'<table:table-cell office:value-type="time" office:time-value="{d}"><text:p>x</text:p></table:table-cell>')
                    grow.append({"v": d})
                j += 1
            tr = f'<table:table-row>{"".join(cells)}</table:table-row>'
            if is_f and feature == "repeated-row" and i == 1:
                if twin:
                    # two literal identical rows would repeat tokens; write a second row with fresh tokens of the same shape instead
                    tr2_cells, grow2 = [], []
                    for _ in range(len(grow)):
                        t = exp.text(tk.new("c"), s)
                        tr2_cells.append(f'<table:table-cell office:value-type="string"><text:p>{t}</text:p></table:table-cell>')
                        grow2.append({"toks": [t]})
                    trs.append(tr)
                    grid.append(grow)
                    trs.append(f'<table:table-row>{"".join(tr2_cells)}</table:table-row>')
                    grid.append(grow2)
                    continue
                tr = f'<table:table-row table:number-rows-repeated="2">{"".join(cells)}</table:table-row>'
                for c in grow:
                    for t in c.get("toks", []):
                        exp.ignore(t)
                grid.append([{"any": True}] * len(grow))
                grid.append([{"any": True}] * len(grow))
                trs.append(tr)
                continue
            if is_f and risky == "header-rows" and i == 0:
                tr = f"<table:table-header-rows>{tr}</table:table-header-rows>"
            if is_f and risky == "row-group" and i == 1:
                tr = f"<table:table-row-group>{tr}</table:table-row-group>"
            trs.append(tr)
            grid.append(grow)
        shapes = ""
        if feature == "shared-picture":
            n_img += 1
            if ods_logo is None:
                f1, ods_logo = _frame_image(rng, files, exp, n_img, s + 1, y="1cm")
            elif twin:
                f1, _ = _frame_image(rng, files, exp, n_img, s + 1, y="1cm", reuse=dict(ods_logo, name=f"Pictures/logo-copy{n_img}{ods_logo['ext']}"))
            else:
                f1, _ = _frame_image(rng, files, exp, n_img, s + 1, y="1cm", reuse=ods_logo)
            n_img += 1
            f2, _ = _frame_image(rng, files, exp, n_img, s + 1, y="5cm")
            shapes = f"<table:shapes>{f1}{f2}</table:shapes>"
        elif is_f and feature == "missing-picture-part":
            fxs = []
            for k3 in range(3):
                n_img += 1
                fxs.append(_frame_image(rng, files, exp, n_img, s + 1, y=f"{1 + 3 * k3}cm", missing=(k3 == 1 and not twin))[0])
            shapes = f"<table:shapes>{''.join(fxs)}</table:shapes>"
        elif rng.random() < 0.3:
            n_img += 1
            fx, _ = _frame_image(rng, files, exp, n_img, s + 1)
            shapes = f"<table:shapes>{fx}</table:shapes>"
        if is_f and feature == "empty-sheet":
            if twin:
                t = exp.text(tk.new("c"), s)
                trs.append(f'<table:table-row><table:table-cell office:value-type="string"><text:p>{t}</text:p></table:table-cell></table:table-row>')
                grid.append([{"toks": [t]}])
            else:
                trs.append(f'<table:table-row table:number-rows-repeated="1048576"><table:table-cell table:number-columns-repeated="{cols}"/></table:table-row>')
        tables.append(f'<table:table table:name="{name}">{shapes}<table:table-column table:number-columns-repeated="{cols}"/>{"".join(trs)}</table:table>')
        exp.tables.append({"grid": grid, "unit": s + 1})
    exp.n_units = n_sheets
    dde = ""
    if risky == "dde-link":
        # the cached result table of a DDE link, which Calc writes after the sheets: a table:table that is not a sheet
        dde = ('<table:dde-links><table:dde-link><office:dde-source office:dde-application="soffice" office:dde-topic="/tmp/x.ods" office:dde-item="Sheet1.A1" office:automatic-update="true"/>'
               f'<table:table><table:table-column/><table:table-row><table:table-cell office:value-type="string"><text:p>{exp.ignore(tk.new("u"))}</text:p></table:table-cell></table:table-row></table:table>'
               '</table:dde-link></table:dde-links>')
    content = (f'<?xml version="1.0" encoding="UTF-8"?><office:document-content {NSDECL}><office:body><office:spreadsheet>{"".join(tables)}{dde}</office:spreadsheet></office:body></office:document-content>')
    if risky == "no-meta":
        meta, exp.meta = None, {}
    return _pkg("ods", content, meta, None, files), exp


# ============================================================================================= ODG

def build_odg(seed: int, feature: str | None = None, twin: bool = False):
    rng = random.Random(f"odg:{seed}")
    tk = Tokens()
    exp = Expect("odg")
    exp.literals = []   # every non-token visible string this writer emits: the rest of the output must hold no letter or digit (C02 'no text that is not in the source')
    exp.unit_mode = "exact"
    exp.n_units = 1
    exp.join_equality = True
    exp.images_claimed = True
    if feature:
        exp.features.add(feature if not twin else feature + "#twin")
    meta = _meta(tk, exp, rng)
    files: dict[str, bytes] = {}
    shapes = []
    n_img = 0
    for _ in range(rng.randint(1, 6)):
        k = rng.random()
        if k < 0.5:
            ps = "".join(f'<text:p>{" ".join(exp.text(tk.new("x"), 0) for _ in range(rng.randint(1, 3)))}</text:p>' for _ in range(rng.randint(1, 2)))
            shapes.append(f'<draw:frame svg:x="1cm" svg:y="1cm" svg:width="5cm" svg:height="1cm"><draw:text-box>{ps}</draw:text-box></draw:frame>')
        elif k < 0.75:
            t = " ".join(exp.text(tk.new("b"), 0) for _ in range(rng.randint(1, 2)))
            shapes.append(f'<draw:custom-shape svg:x="1cm" svg:y="3cm" svg:width="5cm" svg:height="1cm"><text:p>{t}</text:p></draw:custom-shape>')
        else:
            n_img += 1
            fx, _ = _frame_image(rng, files, exp, n_img, None)
            shapes.append(fx)
    rep_rng = random.Random(f"odg-repeats:{seed}")
    if feature is None and rep_rng.random() < 0.5:
        # the same label on several shapes (two flow-chart branches both marked "approved"): every one of them is text of the drawing
        label = rep_rng.choice(["approved", "open item", "yes"])
        k = rep_rng.randint(2, 3)
        for i in range(k):
            tok = exp.text(tk.new("b"), 0)
            shapes.append(f'<draw:custom-shape svg:x="{8 + i}cm" svg:y="{3 + 2 * i}cm" svg:width="5cm" svg:height="1cm"><text:p>{label}</text:p><text:p>{tok}</text:p></draw:custom-shape>'
                          if i % 2 else f'<draw:frame svg:x="{8 + i}cm" svg:y="{3 + 2 * i}cm" svg:width="5cm" svg:height="1cm"><draw:text-box><text:p>{tok}</text:p><text:p>{label}</text:p></draw:text-box></draw:frame>')
        exp.repeats[label] = k
        exp.literals += [label]
    if feature == "shared-image":
        n_img += 1
        fx, im = _frame_image(rng, files, exp, n_img, None)
        shapes.append(fx)
        n_img += 1
        if twin:
            fx2, _ = _frame_image(rng, files, exp, n_img, None)
        else:
            fx2, _ = _frame_image(rng, files, exp, n_img, None, reuse=im)
        shapes.append(fx2)
    content = (f'<?xml version="1.0" encoding="UTF-8"?><office:document-content {NSDECL}><office:body><office:drawing><draw:page draw:name="page1">{"".join(shapes)}</draw:page></office:drawing></office:body></office:document-content>')
    if feature == "no-meta" and not twin:
        meta, exp.meta = None, {}
    return _pkg("odg", content, meta, None, files), exp


BUILDERS = {
    "odt": (build_odt, ODT_FEATURES, "odt", ".odt"),
    "odp": (build_odp, ODP_FEATURES, "odp", ".odp"),
    "ods": (build_ods, ODS_FEATURES, "ods", ".ods"),
    "odg": (build_odg, ODG_FEATURES, "odg", ".odg"),
}
