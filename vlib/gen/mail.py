"""Ground-truth e-mail workload for C16: a message model, stdlib and hand-folded renderers, an mboxrd writer.

The model is a plain JSON-able dict (``spec``) so that a case can be written into a replay file:

    subject          str (no leading/trailing white space; the interior may hold significant white space: runs of
                     blanks, a tab, U+00A0, U+3000, U+2003, U+2009 - see SUBJECT_WS)
    from             [name, addr]
    to/cc/bcc/reply_to   list of entries: ["a", name, addr] | ["g", group name, [[name, addr], ...]]
    date             [Y, M, D, h, m, s, utc offset in minutes]         date_style: see DATE_STYLES
    message_id       "<...>"
    plain / html     str | None        (lines separated by "\\n")
    extra_text       [{"subtype": "plain"|"html", "text", "charset", "cte", "pos": "after-body"|"end", "disp": None|"inline"}]
                     further inline text parts of the multipart/mixed container (mailing-list footer, gateway disclaimer)
    body             {"plain": [charset, cte], "html": [charset, cte]}
    atts             [{"filename" ("" = the part carries no filename / name parameter), "ctype" (declared type - need not
                       be the canonical one of the file name's extension), "data" (bytes), "cte",
                       "disp": "attachment"|"inline"|"none" (no Content-Disposition header at all: a message
                       forwarded inline), "kind"}]
    hdr              {"mode": "stdlib"|"hand", "policy": "SMTP"|"default", ...hand options...}
    features         sorted list of feature tags (what makes the case distinct)

Everything a reader could mix up carries a unique token ``q<class><5 digits>z``.

Rendering uses the standard library (``email.message.EmailMessage`` + ``BytesGenerator``) for the
MIME tree; in ``hand`` mode the RFC 5322 header block (RFC 2047 B/Q words in five charsets, folding,
quoted strings, groups, date styles) is written by this module and prepended to the stdlib MIME entity.
The extractors under test read with mail-parser / ``email`` (compat32 parser) — the *generator* side of
the stdlib is the independent writer here, and the hand-written header block is independent of both.
"""
from __future__ import annotations

import base64
import binascii
import copy
import datetime as _dt
import io
import re
from email import policy as _policy
from email.generator import BytesGenerator
from email.headerregistry import Address, Group
from email.message import EmailMessage

TOKEN_RE = re.compile(r"q[a-z][0-9]{5}z")


class Tokens:
    """Serial source of unique class-tagged tokens ``q<class><5 digits>z``."""

    def __init__(self, start: int = 0):
        self.n = start

    def __call__(self, cls: str) -> str:
        self.n += 1
        return f"q{cls}{self.n % 100000:05d}z"


# ----------------------------------------------------------------------------- text samples per charset
SAMPLES = {
    "us-ascii": ["plain words", "quarterly report", "re: meeting notes"],
    "utf-8": ["Grüße aus Köln", "Привет мир", "日本語のテキスト", "emoji 😀 ok", "naïve café", "中文测试"],
    "iso-8859-1": ["Grüße aus Köln", "señor café crème", "Ærø Åse"],
    "koi8-r": ["Привет мир", "Добрый день"],
    "shift_jis": ["日本語のテキスト", "こんにちは世界"],
    "gb2312": ["中文测试邮件", "你好世界"],
}
CHARSETS = list(SAMPLES)
NONASCII_CHARSETS = [c for c in CHARSETS if c != "us-ascii"]

DATE_STYLES = ("std", "noweekday", "comment", "noseconds", "zone-gmt", "zone-ut", "zone-named", "offset-odd",
               "minus0000", "single-digit-day", "obs-year2")
NAMED_ZONES = {"EST": -300, "EDT": -240, "CST": -360, "CDT": -300, "MST": -420, "MDT": -360, "PST": -480, "PDT": -420}
ODD_OFFSETS = (345, 765, -570, 840, -720, 330, 570, -210)
_DAYS = ("Mon", "Tue", "Wed", "Thu", "Fri", "Sat", "Sun")
_MONTHS = ("Jan", "Feb", "Mar", "Apr", "May", "Jun", "Jul", "Aug", "Sep", "Oct", "Nov", "Dec")

FROMLIKE_LINES = (
    "From the desk of {t}",                       # 'From ' line: the mboxrd writer escapes it
    "From {t}@example.com Tue Jan  2 23:30:00 2024",   # a perfect separator look-alike (escaped by the writer)
    "From me to you in 2024",
    ">From {t} quoted once already 1999",          # already-quoted: becomes >>From in the mailbox
    "Fromage {t} 1999",                            # not a separator: no blank after From
    "From: {t}@example.com 2024",                  # header look-alike
    " From {t}@example.com Tue Jan  2 23:30:00 2024",  # leading blank
    "from {t}@example.com Tue Jan  2 23:30:00 2024",   # lower case
    "FROM {t}@example.com Tue Jan  2 23:30:00 2024",   # upper case
    "From",                                        # bare word
    "Sent From {t} 2024",
    # begin with "From " and hold a four-digit number, but are not shaped like a separator (no date at the end of the line):
    # escaped like every From line in an mboxrd mailbox, left as they are in a mailbox that escapes look-alikes only
    "From here on, the 2024 figures are final ({t}).",
    "From 10:00:00 2025 onwards {t} applies",
    "From {t} 1999 to the present day",
    "From 2019 until now: {t}",
    # written by the sender with a ">" of their own (a quoted reply): stored as it is by mboxo and look-alikes-only writers
    ">From what I read in {t}, nothing has changed",
    ">>From the older message {t}: see above",
)


# White space that is *content* of a decoded Subject / display name (not folding): between its first and last
# visible character a header value may hold runs of blanks or white-space characters other than U+0020.  A reader
# returns them as they are; "tidying" them (str.split/join, \\s+ -> ' ') changes the subject.
SUBJECT_WS = {
    "double-blank": "  ",          # two blanks after a full stop, aligned "Col A:  12" subjects
    "triple-blank": "   ",
    "tab": "\t",                   # raw HTAB is WSP in an unstructured header; =09 / base64 inside an encoded word
    "blank-tab": " \t",
    "nbsp": "\u00a0",              # "Nr.\u00a04711" - routine in German / French subjects
    "nbsp-blank": "\u00a0 ",
    "ideographic": "\u3000",       # routine in Japanese / Chinese subjects
    "em-space": "\u2003",
    "thin-space": "\u2009",
}


def encodable(text: str, charset: str) -> bool:
    try:
        text.encode(charset)
        return True
    except (UnicodeEncodeError, LookupError):
        return False


def is_ascii(s: str) -> bool:
    try:
        s.encode("ascii")
        return True
    except UnicodeEncodeError:
        return False


# ----------------------------------------------------------------------------- model helpers
def flat(entries) -> list[list[str]]:
    """Address entries -> the ordered list of [name, addr] a reader must return (groups flattened)."""
    out = []
    for e in entries or []:
        if e[0] == "a":
            out.append([e[1], e[2]])
        else:
            out.extend([list(m) for m in e[2]])
    return out


def instant(date7) -> _dt.datetime:
    y, mo, d, h, mi, s, off = date7
    return _dt.datetime(y, mo, d, h, mi, s, tzinfo=_dt.timezone(_dt.timedelta(minutes=off)))


def spec_instant(spec: dict) -> _dt.datetime:
    """The instant the Date: header denotes (``second-60`` writes hh:mm:60 for the model's hh:mm:59 + 1 s)."""
    t = instant(spec["date"])
    return t + _dt.timedelta(seconds=1) if spec.get("date_style") == "second-60" else t


def strip_attachments(spec: dict) -> dict:
    t = copy.deepcopy(spec)
    t["atts"] = []
    t["features"] = sorted(f for f in t["features"] if not f.startswith("att:"))
    return t


# ----------------------------------------------------------------------------- RFC 2047 encoder (own)
_Q_SAFE = set(b"abcdefghijklmnopqrstuvwxyzABCDEFGHIJKLMNOPQRSTUVWXYZ0123456789")


def _q_bytes(raw: bytes) -> str:
    out = []
    for b in raw:
        if b in _Q_SAFE:
            out.append(chr(b))
        elif b == 0x20:
            out.append("_")
        else:
            out.append("=%02X" % b)
    return "".join(out)


def encoded_words(text: str, charset: str, mode: str, label: str | None = None) -> list[str]:
    """Split ``text`` into RFC 2047 encoded-words (<= 75 chars each, whole characters per word)."""
    label = label or charset
    words, cur = [], ""
    budget = 75 - len(f"=?{label}?{mode}??=")

    def enc(s: str) -> str:
        raw = s.encode(charset)
        return base64.b64encode(raw).decode("ascii") if mode.upper() == "B" else _q_bytes(raw)

    for ch in text:
        if cur and len(enc(cur + ch)) > budget:
            words.append(cur)
            cur = ""
        cur += ch
    if cur:
        words.append(cur)
    return [f"=?{label}?{mode}?{enc(w)}?=" for w in words]


def encode_unstructured(text: str, charset: str, mode: str, style: str, label: str | None = None) -> list[str]:
    """-> list of atoms to be joined by one blank (or a fold).  ``style``: whole | mixed."""
    if is_ascii(text) and style != "whole":
        return text.split(" ")             # a run of k blanks gives k-1 empty atoms: joined by one blank each, the run is back
    if style == "whole":
        return encoded_words(text, charset, mode, label)
    atoms, run = [], []
    for w in text.split(" "):
        if w == "" and run:
            run.append(w)                  # a blank of a run of blanks after a non-ASCII word travels inside the encoded word
        elif is_ascii(w):                  # (white space *between* two encoded-words would be dropped by every reader)
            if run:
                atoms += encoded_words(" ".join(run), charset, mode, label)
                run = []
            atoms.append(w)
        else:
            run.append(w)
    if run:
        atoms += encoded_words(" ".join(run), charset, mode, label)
    return atoms


def _is_ew(atom: str) -> bool:
    return atom.startswith("=?") and "?=" in atom[-3:]


def fold(name: str, atoms: list[str], eol: str, width: int = 76, cont: str = " ", colon: str = ": ",
         ew_fold: str = "free") -> str:
    """Header line(s): atoms joined by one blank, folded before an atom when the line would exceed width.

    ``ew_fold``: what to do at a boundary between an encoded-word and ordinary text — "free" (fold wherever the
    width asks for it; right for structured headers, where the phrase is parsed before it is decoded), "never"
    fold there (clean form of an unstructured header) or "always" fold there (the risky form: CPython's
    decode_header() drops that blank)."""
    line = name + colon.rstrip(" ") if not atoms else name + colon + atoms[0]
    out = []
    for prev, a in zip(atoms, atoms[1:]):
        boundary = _is_ew(prev) != _is_ew(a)
        if a == "" or prev == "" or a[0] in " \t" or prev[-1] in " \t":
            # inside / next to a run of white space: never a fold (no white-space-only line, RFC 5322 3.2.2, and no
            # doubt about which of the characters after the line break belongs to the fold)
            line += " " + a
        elif (boundary and ew_fold == "always") or (len(line) + 1 + len(a) > width and not (boundary and ew_fold == "never")):
            out.append(line)
            line = cont + a
        else:
            line += " " + a
    out.append(line)
    return eol.join(out) + eol


_SPECIALS = set('()<>[]:;@\\,."')


def render_phrase(name: str, opt: dict) -> list[str]:
    """Display name -> atoms (quoted-string, plain words or encoded words)."""
    if is_ascii(name):
        if opt.get("name_ascii") == "encoded":
            return encoded_words(name, "utf-8", opt.get("name_mode", "Q"))
        if any(c in _SPECIALS for c in name) or opt.get("name_ascii") == "quoted":
            return ['"' + name.replace("\\", "\\\\").replace('"', '\\"') + '"']   # one atom: never folded inside
        return name.split(" ")
    cs = opt.get("name_charset", "utf-8")
    try:
        name.encode(cs)
    except UnicodeEncodeError:
        cs = "utf-8"
    return encoded_words(name, cs, opt.get("name_mode", "B"), opt.get("charset_label", {}).get(cs))


def render_mailbox(name: str, addr: str, opt: dict) -> list[str]:
    if not name:
        return [f"<{addr}>"] if opt.get("bare_style") == "angle" else [addr]
    return render_phrase(name, opt) + [f"<{addr}>"]


def render_address_list(entries, opt: dict) -> list[str]:
    """-> atoms; list separators are glued to the preceding atom so that folding happens after commas."""
    items = []
    for e in entries:
        if e[0] == "a":
            items.append(render_mailbox(e[1], e[2], opt))
        else:
            atoms = render_phrase(e[1], dict(opt, name_ascii=None))
            atoms[-1] += ":"
            members = [render_mailbox(n, a, opt) for n, a in e[2]]
            for i, m in enumerate(members):
                if i < len(members) - 1:
                    m[-1] += ","
                atoms += m
            atoms[-1] += ";"
            items.append(atoms)
    out = []
    for i, it in enumerate(items):
        it = list(it)
        if i < len(items) - 1:
            it[-1] += ","
        out += it
    return out


def render_date(date7, style: str) -> str:
    y, mo, d, h, mi, s, off = date7
    wd = _DAYS[_dt.date(y, mo, d).weekday()]
    sign = "-" if off < 0 else "+"
    zone = f"{sign}{abs(off) // 60:02d}{abs(off) % 60:02d}"
    day = f"{d:02d}"
    if style == "noweekday":
        return f"{d} {_MONTHS[mo - 1]} {y} {h:02d}:{mi:02d}:{s:02d} {zone}"
    if style == "comment":
        return f"{wd}, {day} {_MONTHS[mo - 1]} {y} {h:02d}:{mi:02d}:{s:02d} {zone} (local time)"
    if style == "noseconds":
        return f"{wd}, {day} {_MONTHS[mo - 1]} {y} {h:02d}:{mi:02d} {zone}"
    if style == "zone-gmt":
        zone = "GMT"
    elif style == "zone-ut":
        zone = "UT"
    elif style == "zone-named":
        zone = next(k for k, v in NAMED_ZONES.items() if v == off)
    elif style == "minus0000":
        zone = "-0000"
    elif style == "single-digit-day":
        day = str(d)
    elif style == "obs-year2":
        return f"{wd}, {day} {_MONTHS[mo - 1]} {y % 100:02d} {h:02d}:{mi:02d}:{s:02d} {zone}"
    elif style == "second-60":                 # RFC 5322 3.3: second = 2DIGIT, 00..60 (leap second)
        return f"{wd}, {day} {_MONTHS[mo - 1]} {y} {h:02d}:{mi:02d}:60 {zone}"
    return f"{wd}, {day} {_MONTHS[mo - 1]} {y} {h:02d}:{mi:02d}:{s:02d} {zone}"


# ----------------------------------------------------------------------------- MIME tree (stdlib)
def _pol(spec):
    return _policy.SMTP if spec["hdr"].get("policy", "SMTP") == "SMTP" else _policy.default


def _add_att(target: EmailMessage, a: dict, pol, related: bool):
    add = target.add_related if related else target.add_attachment
    kw = {"filename": a["filename"] or None}            # None: no filename parameter is written
    if a.get("name_style") and a["filename"]:
        kw["filename"] = _name_placeholder(a)            # swapped for the RFC 2047 spelling in the rendered bytes (render_message)
    if a.get("cid"):
        kw["cid"] = a["cid"]
    if a["disp"] == "inline":
        kw["disposition"] = "inline"
    if a["kind"] == "eml":
        inner = build_message(a["inner"], pol_override=pol)
        add(inner, **kw)
    else:
        main, sub = a["ctype"].split("/", 1)
        add(a["data"], maintype=main, subtype=sub, cte=a.get("cte", "base64"), **kw)
    if a["disp"] == "none":                              # what email.mime.message.MIMEMessage writes: no disposition at all
        del target.get_payload()[-1]["Content-Disposition"]


def _name_placeholder(a: dict) -> str:
    return "x2047x" + binascii.hexlify(a["filename"].encode("utf-8"))[:24].decode("ascii") + f"x{len(a['filename'])}x.bin"


def _rfc2047_names(raw: bytes, spec: dict, eol: str) -> bytes:
    """Attachment names in the spelling most mail clients use for them - an RFC 2047 encoded word inside the quoted
    ``filename`` parameter (or only in the Content-Type ``name`` parameter) - where the stdlib writes RFC 2231
    (``filename*=utf-8''...``): the stdlib-written placeholder parameter is replaced in the rendered bytes.  A name that
    needs several encoded words has them separated by a fold inside the quotes."""
    e = eol.encode("ascii")
    for a in spec.get("atts", []):
        st = a.get("name_style")
        if not st or not a["filename"]:
            continue
        ph = _name_placeholder(a).encode("ascii")
        words = encoded_words(a["filename"], a.get("name_charset", "utf-8"), a.get("name_mode", "B"))
        value = b'"' + (e + b" ").join(w.encode("ascii") for w in words) + b'"'
        m = re.search(rb';[ \t]*(?:\r?\n[ \t]+)?filename="?' + re.escape(ph) + rb'"?', raw)
        assert m, ("placeholder not found", ph)
        if st == "rfc2047":
            raw = raw[:m.start()] + b";" + e + b" filename=" + value + raw[m.end():]
        else:                                            # "rfc2047-name": no filename parameter at all, the name sits in Content-Type
            raw = raw[:m.start()] + raw[m.end():]
            start = raw.rfind(e + b"--", 0, m.start())
            ct = re.compile(rb"(?im)^Content-Type:.*(?:\r?\n[ \t].*)*").search(raw, start)
            assert ct and ct.start() < m.start() + 400, "Content-Type of the part not found"
            end = ct.end() - (1 if raw[ct.end() - 1:ct.end()] == b"\r" else 0)
            raw = raw[:end] + b";" + e + b" name=" + value + raw[end:]
    return raw


def build_message(spec: dict, pol_override=None, with_headers: bool | None = None) -> EmailMessage:
    """The stdlib object for ``spec``.  Address/subject/date headers are set only in stdlib mode."""
    pol = pol_override or _pol(spec)
    m = EmailMessage(policy=pol)
    stdlib_hdr = spec["hdr"]["mode"] == "stdlib" if with_headers is None else with_headers
    if stdlib_hdr:
        def obj(n, a):
            if "@" in a and not a.startswith('"'):
                u, dom = a.rsplit("@", 1)
                return Address(n, u, dom)
            return Address(n, addr_spec=a)

        def objs(entries):
            out = []
            for e in entries:
                out.append(obj(e[1], e[2]) if e[0] == "a" else Group(e[1], tuple(obj(n, a) for n, a in e[2])))
            return tuple(out)

        m["From"] = obj(*spec["from"])
        for h, k in (("To", "to"), ("Cc", "cc"), ("Bcc", "bcc"), ("Reply-To", "reply_to")):
            if spec.get(k):
                m[h] = objs(spec[k])
        m["Subject"] = spec["subject"]
        m["Date"] = instant(spec["date"])
        if spec["message_id"]:                           # "" = the message has no Message-ID header (RFC 5322 3.6.4: SHOULD)
            m["Message-ID"] = spec["message_id"]
        for n, v in spec["hdr"].get("extra", []):
            m[n] = v
    plain, html = spec.get("plain"), spec.get("html")
    inline = [a for a in spec.get("atts", []) if a["disp"] == "inline"]
    attached = [a for a in spec.get("atts", []) if a["disp"] != "inline" and not a.get("of_wrapper")]
    body = spec.get("body", {})
    if plain is not None:
        cs, cte = body.get("plain", ["utf-8", "8bit"])
        m.set_content(plain, subtype="plain", charset=cs, cte=cte)
    if html is not None:
        cs, cte = body.get("html", ["utf-8", "8bit"])
        if plain is not None:
            m.add_alternative(html, subtype="html", charset=cs, cte=cte)
            hpart = m.get_payload()[1]
        else:
            m.set_content(html, subtype="html", charset=cs, cte=cte)
            hpart = m
        for a in inline:
            _add_att(hpart, a, pol, related=True)
    if spec.get("wrap_mixed") and not attached:
        m.make_mixed()
    for a in attached:
        _add_att(m, a, pol, related=False)
    if spec.get("extra_text"):
        if m.get_content_type() != "multipart/mixed":
            m.make_mixed()
        for x in spec["extra_text"]:
            part = EmailMessage(policy=pol)
            part.set_content(x["text"], subtype=x["subtype"], charset=x["charset"], cte=x["cte"])
            if x.get("disp"):
                part["Content-Disposition"] = x["disp"]
            kids = m.get_payload()
            kids.insert(1 if x["pos"] == "after-body" else len(kids), part)
    if spec.get("container"):
        _contain(m, spec, pol)
    return m


def _contain(m: EmailMessage, spec: dict, pol) -> None:
    """Put the message's content below another multipart container than mixed / related (attachments are found wherever
    they sit in the tree):
      alternative-outer  alternative(text/plain, mixed(html entity, attachments...))   - what Apple Mail sends
      signed             signed(content entity, application/pkcs7-signature "smime.p7s") - S/MIME, PGP/MIME alike
      report             report(content entity, text/rfc822-headers)                    - a bounce carrying the original's headers
      parallel / x-...   <subtype>(content entity)  - RFC 2046: an unknown multipart subtype is read as mixed"""
    kind = spec["container"]

    def retype(ctype):
        for h in ("Content-Type", "Content-Transfer-Encoding", "Content-Disposition", "Content-ID"):
            del m[h]
        m["Content-Type"] = ctype

    if kind == "alternative-outer":
        kids = m.get_payload()
        if m.get_content_type() != "multipart/mixed" or kids[0].get_content_type() != "multipart/alternative":
            return                                       # (a twin without its attachments: nothing to put below the alternative)
        alt, atts = kids[0], kids[1:]
        plain, htmlent = alt.get_payload()
        inner = EmailMessage(policy=pol)
        inner["Content-Type"] = "multipart/mixed"
        inner.set_payload([htmlent] + atts)
        retype("multipart/alternative")
        m.set_payload([plain, inner])
        return
    content = copy.deepcopy(m)                           # the content entity: the message as built, without its message headers
    for h in list(content.keys()):
        if not h.lower().startswith("content-"):
            del content[h]
    extra = []
    for a in spec.get("atts", []):
        if a.get("of_wrapper"):
            part = EmailMessage(policy=pol)
            main, sub = a["ctype"].split("/", 1)
            part.set_content(a["data"], maintype=main, subtype=sub, cte="base64", disposition="attachment", filename=a["filename"])
            extra.append(part)
    if kind == "report":
        hdrs = EmailMessage(policy=pol)
        hdrs.set_content("Subject: the original subject\nMessage-ID: <original@example.com>\n", subtype="rfc822-headers", charset="us-ascii", cte="7bit")
        extra.append(hdrs)
    retype({"signed": 'multipart/signed; protocol="application/pkcs7-signature"; micalg=sha-256',
            "report": "multipart/report; report-type=delivery-status"}.get(kind, "multipart/" + kind))
    m.set_payload([content] + extra)


def _flatten(m: EmailMessage, pol) -> bytes:
    buf = io.BytesIO()
    BytesGenerator(buf, policy=pol, mangle_from_=False).flatten(m)
    return buf.getvalue()


def hand_header_block(spec: dict, eol: str) -> str:
    h = spec["hdr"]
    cont = "\t" if h.get("tab_fold") else " "
    colon = ":" if h.get("nospace") else ": "
    width = h.get("width", 76)

    def nm(n):
        style = h.get("name_case")
        return n.upper() if style == "upper" else n.lower() if style == "lower" else n

    smode, scs, sstyle = h.get("subject_enc", ["B", "utf-8", "mixed"])
    label = h.get("charset_label", {}).get(scs)
    lines = {}
    lines["Subject"] = fold(nm("Subject"), encode_unstructured(spec["subject"], scs, smode, sstyle, label), eol, h.get("subject_width", width), cont, colon,
                            ew_fold="always" if h.get("fold_at_ew") else "never")
    lines["From"] = fold(nm("From"), render_mailbox(spec["from"][0], spec["from"][1], h), eol, width, cont, colon)
    for hn, k in (("To", "to"), ("Cc", "cc"), ("Bcc", "bcc"), ("Reply-To", "reply_to")):
        if spec.get(k):
            lines[hn] = fold(nm(hn), render_address_list(spec[k], h), eol, width, cont, colon)
    lines["Date"] = fold(nm("Date"), [render_date(spec["date"], spec.get("date_style", "std"))], eol, 998, cont, colon)
    if not spec["message_id"]:
        pass
    elif h.get("mid_folded"):
        lines["Message-ID"] = nm("Message-ID") + ":" + eol + " " + spec["message_id"] + eol
    else:
        lines["Message-ID"] = fold(nm("Message-ID"), [spec["message_id"]], eol, 998, cont, colon)
    order = h.get("order") or ["From", "To", "Cc", "Bcc", "Reply-To", "Subject", "Date", "Message-ID"]
    extra = list(h.get("extra", []))
    cut = h.get("extra_before", len(extra) // 2)
    out = []
    for n, v in extra[:cut]:
        out.append(fold(n, v.split(" "), eol, width, " ", ": "))
    for k in order:
        if k in lines:
            out.append(lines[k])
    for n, v in extra[cut:]:
        out.append(fold(n, v.split(" "), eol, width, " ", ": "))
    return "".join(out)


def render_message(spec: dict) -> bytes:
    """spec -> RFC 5322 bytes (CRLF under policy SMTP, LF under policy default)."""
    pol = _pol(spec)
    m = build_message(spec)
    raw = _flatten(m, pol)
    if any(a.get("name_style") for a in spec.get("atts", [])):
        raw = _rfc2047_names(raw, spec, pol.linesep)
    if spec["hdr"]["mode"] == "stdlib":
        return raw
    eol = pol.linesep
    return hand_header_block(spec, eol).encode("ascii") + raw


def attachment_truth_bytes(a: dict, pol) -> bytes:
    """Bytes a reader must return for attachment ``a`` (for a nested message: its own serialisation)."""
    if a["kind"] == "eml":
        return _flatten(build_message(a["inner"], pol_override=pol), pol)
    return a["data"]


# ----------------------------------------------------------------------------- mboxrd writer (own)
_FROM_ESC = re.compile(rb"^>*From ")


_LOOKALIKE = re.compile(rb"^>*From \S+.*\d{4}[ \t]*$")      # "From " + token + ... + four digits at the end: could be taken for a separator
ESCAPE_STYLES = ("mboxrd", "mboxo", "lookalikes-only")


def needs_escape(line: bytes, style: str) -> bool:
    """mboxrd: every ^>*From(blank) line.  mboxo (the classic rule, what Python's mailbox.mbox and most clients write): only a
    line that starts with "From " - a line the sender wrote as ">From ..." is stored as it is, so a stored ">From " line does not say
    whether its ">" is the writer's or the sender's.  lookalikes-only: what writers without a general quoting rule (mboxcl / mboxcl2,
    home-grown exporters) must at least protect - lines shaped like a separator; every other From line stays as it is."""
    if style == "mboxrd":
        return bool(_FROM_ESC.match(line))
    if style == "mboxo":
        return line.startswith(b"From ")
    return bool(_LOOKALIKE.match(line.rstrip(b"\r\n")))


def escape_text(text: str, style: str) -> str:
    """What the mailbox writer's escaping does to a decoded 7bit/8bit/QP body under ``style``."""
    return "\n".join((">" + ln) if needs_escape(ln.encode("utf-8", "surrogateescape"), style) else ln for ln in text.split("\n"))


def mboxrd_escape_text(text: str) -> str:
    """What the writer's escaping does to a decoded 7bit/8bit/QP body: '>' before every ^>*From line."""
    return "\n".join((">" + ln) if re.match(r">*From ", ln) else ln for ln in text.split("\n"))


def asctime(date7) -> str:
    y, mo, d, h, mi, s, _ = date7
    wd = _DAYS[_dt.date(y, mo, d).weekday()]
    return f"{wd} {_MONTHS[mo - 1]} {d:2d} {h:02d}:{mi:02d}:{s:02d} {y}"


def write_mbox(messages: list[bytes], envelopes: list[tuple[str, str]], eol: bytes = b"\n",
               blank_lines: int = 1, final_blank: bool = True, escape: str = "mboxrd") -> tuple[bytes, int]:
    """mboxrd: ``From <sender> <asctime>`` separator, '>' escaping of ^>*From body lines, blank line after
    each message.  Returns (bytes, number of escaped lines)."""
    out, escaped = [], 0
    for i, (raw, (sender, when)) in enumerate(zip(messages, envelopes)):
        out.append(b"From " + sender.encode("ascii") + b" " + when.encode("ascii") + eol)
        lines = raw.replace(b"\r\n", b"\n").split(b"\n")
        if lines and lines[-1] == b"":
            lines.pop()
        for ln in lines:
            if needs_escape(ln, escape):
                ln = b">" + ln
                escaped += 1
            out.append(ln + eol)
        last = i == len(messages) - 1
        if not last or final_blank:
            out.append(eol * blank_lines)
    return b"".join(out), escaped


# ----------------------------------------------------------------------------- random specs
def _addr(rng, tok, style="plain") -> str:
    t = tok("e")
    dom = rng.choice(["example.com", "sub.example.org", "mail.example.net", "Example.COM", "xn--bcher-kva.example"])
    if style == "quoted-local":
        return f'"{t} user"@{dom}'
    local = rng.choice([t, f"{t}.user", f"first.{t}", f"{t}+tag", f"{t}-x_y", t.upper()[:3] + t[3:]])
    return f"{local}@{dom}"


def _name(rng, tok, kind: str, charset: str) -> str:
    t = tok("n")
    if kind == "none":
        return ""
    if kind == "ascii":
        return rng.choice([f"Alice {t}", f"{t} Bob", f"Dr {t} Carol Jr"])
    if kind == "comma":
        return rng.choice([f"Doe, John {t}", f"{t}, Inc.", f"Smith; {t}: sales"])
    if kind == "escapes":
        return rng.choice([f'John "JD" {t}', f"back\\slash {t}", f'{t} "q", x'])
    if kind == "nonascii":
        return f"{rng.choice(SAMPLES[charset])} {t}"
    if kind == "nonascii-comma":
        return f"{rng.choice(SAMPLES[charset]).replace(' ', ', ', 1)}, {t}"
    if kind == "ws-quoted":            # significant white space inside a quoted-string (the comma / dot forces the quotes)
        return rng.choice([f"Doe,  John {t}", f"{t} Inc.   Sales", f"Dr. {t},\tMD"])
    if kind == "nonascii-ws":          # ... and inside an encoded word (falls back to utf-8 when the charset lacks the character)
        return rng.choice(SAMPLES[charset]) + rng.choice(["\u00a0", "\u3000", "  ", "\u2009"]) + t
    raise ValueError(kind)


def body_text(rng, tok, cls: str, charset: str, fromlike: bool, longline: bool) -> str:
    n = rng.randrange(1, 7)
    lines = []
    for _ in range(n):
        w = [tok(cls)]
        if rng.random() < 0.6:
            w.append(rng.choice(SAMPLES[charset] if rng.random() < 0.7 else SAMPLES["us-ascii"]))
        if rng.random() < 0.4:
            w.append(tok(cls))
        lines.append(" ".join(w))
    if rng.random() < 0.3:
        lines.insert(rng.randrange(1, len(lines) + 1), "")
    if rng.random() < 0.25:
        i = rng.randrange(len(lines))
        lines[i] = lines[i] + rng.choice(["  ", " \t", "="])          # trailing blanks / '=' stress quoted-printable
    if longline:
        lines.insert(rng.randrange(len(lines) + 1), " ".join(tok(cls) for _ in range(rng.randrange(12, 20))))
    if fromlike:
        for tpl in rng.sample(FROMLIKE_LINES, rng.randrange(1, 5)):
            lines.insert(rng.randrange(0, len(lines) + 1), tpl.format(t=tok(cls)))
    lines.append(tok(cls))                                             # last line: a bare token, no trailing blank
    if lines[0] == "" or lines[0][0] in " \t":
        lines.insert(0, tok(cls))
    return "\n".join(lines) + "\n"


def html_text(rng, tok, charset: str, fromlike: bool, cid: str | None) -> str:
    paras = []
    for _ in range(rng.randrange(1, 4)):
        paras.append(f"<p>{tok('h')} {rng.choice(SAMPLES[charset])} &amp; <b>{tok('h')}</b></p>")
    if fromlike:
        paras.append("From " + tok("h") + " inside html 2024")
    if cid:
        paras.append(f'<img src="cid:{cid}" alt="{tok("h")}">')
    return ("<html><head><title>" + tok("h") + "</title></head>\n<body>\n" + "\n".join(paras) + "\n</body></html>\n")


PNG_SIG = b"\x89PNG\r\n\x1a\n"


def random_spec(rng, tok, fx: dict, *, allow=None, depth: int = 0) -> dict:
    """One clean message.  ``fx``: {"docx": (name, bytes), "pdf": ..., "xlsx": ...}.  ``allow``: feature knobs
    (dict) that the check narrows when a feature turned out to be risky."""
    allow = dict(allow or {})
    feats = []
    mode = rng.choice(["stdlib", "hand", "hand"]) if allow.get("hand", True) else "stdlib"
    pol = rng.choice(["SMTP", "SMTP", "default"])
    hdr = {"mode": mode, "policy": pol}
    feats.append(f"hdr:{mode}:{pol}")
    hcs = rng.choice(CHARSETS) if mode == "hand" else rng.choice(["us-ascii", "utf-8"])
    if hcs not in allow.get("header_charsets", CHARSETS):
        hcs = "utf-8"

    # ---- subject
    words = [tok("s")]
    if hcs != "us-ascii":
        words.append(rng.choice(SAMPLES[hcs]))
    else:
        words.append(rng.choice(SAMPLES["us-ascii"]))
    words.append(tok("s"))
    longsubj = rng.random() < 0.35 and (mode == "hand" or hcs == "us-ascii")   # stdlib refolding of long non-ASCII: writer fault
    if longsubj:
        for _ in range(rng.randrange(4, 12)):
            words.append(rng.choice([tok("s"), rng.choice(SAMPLES[hcs])]))
        words.append(tok("s"))
        feats.append("subj:folded")
    subject = " ".join(words)
    if allow.get("subject_ws", True) and rng.random() < 0.3:
        # significant interior white space: one to three of the single blanks between words become a run of blanks
        # or another white-space character (chosen among those the header's charset can carry)
        wcs = "utf-8" if hcs == "us-ascii" or mode == "stdlib" else hcs
        kinds = [k for k, v in SUBJECT_WS.items() if encodable(v, wcs)]
        seps = [" "] * (len(words) - 1)
        for i in rng.sample(range(len(seps)), min(len(seps), rng.choice([1, 1, 2, 3]))):
            k = rng.choice(kinds)
            seps[i] = SUBJECT_WS[k]
            feats.append("subj:ws:" + k)
        subject = words[0] + "".join(sep + w for sep, w in zip(seps, words[1:]))
    if mode == "hand":
        smode = rng.choice(["B", "Q", "b", "q"])
        sstyle = rng.choice(["whole", "mixed"])
        hdr["subject_enc"] = [smode, hcs if hcs != "us-ascii" else "utf-8", sstyle]
        feats.append(f"subj:{'plain' if is_ascii(subject) and sstyle == 'mixed' else smode.upper() + ':' + sstyle}:{hcs}")
        hdr["tab_fold"] = rng.random() < 0.2 and allow.get("tab_fold", True)
        if hdr["tab_fold"]:
            feats.append("hdr:tab-fold")
        hdr["nospace"] = rng.random() < 0.1
        hdr["name_case"] = rng.choice([None, None, None, "upper", "lower"])
        if hdr["name_case"]:
            feats.append("hdr:name-case-" + hdr["name_case"])
        hdr["width"] = rng.choice([76, 76, 60, 998])
        order = ["From", "To", "Cc", "Bcc", "Reply-To", "Subject", "Date", "Message-ID"]
        rng.shuffle(order)
        hdr["order"] = order
        hdr["name_mode"] = rng.choice(["B", "Q"])
        hdr["name_charset"] = hcs if hcs != "us-ascii" else "utf-8"
        hdr["bare_style"] = rng.choice(["bare", "angle"])
        if rng.random() < 0.15:
            hdr["charset_label"] = {"iso-8859-1": "ISO-8859-1", "utf-8": "UTF-8", "shift_jis": "Shift_JIS",
                                    "gb2312": "GB2312", "koi8-r": "KOI8-R"}
            feats.append("hdr:charset-label-upper")
        hdr["mid_folded"] = rng.random() < 0.15
        if hdr["mid_folded"]:
            feats.append("mid:folded")
    else:
        feats.append(f"subj:stdlib:{'ascii' if is_ascii(subject) else 'utf-8'}")

    # ---- addresses
    name_kinds = ["none", "ascii", "ascii", "comma", "escapes", "nonascii", "nonascii-comma", "ws-quoted", "nonascii-ws"]
    name_kinds = [k for k in name_kinds if allow.get("name:" + k, True)]
    if hcs == "us-ascii" or mode == "stdlib":
        # CPython 3.12's header *generator* mangles separators when it refolds non-ASCII address lists (a writer
        # fault, reproduced), so non-ASCII display names are written by the hand writer only
        name_kinds = [k for k in name_kinds if not k.startswith("nonascii")]
    used = set()

    def mailbox(force_name=False):
        k = rng.choice(name_kinds)
        if force_name and k == "none":
            k = "ascii"
        used.add("name:" + k + (":" + hcs if k.startswith("nonascii") else ""))
        style = "quoted-local" if allow.get("quoted_local", True) and rng.random() < 0.08 else "plain"
        if style == "quoted-local":
            used.add("addr:quoted-local-part")
        return [_name(rng, tok, k, hcs if hcs != "us-ascii" else "utf-8"), _addr(rng, tok, style)]

    def alist(lo, hi, groups=True):
        out = []
        for _ in range(rng.randrange(lo, hi + 1)):
            if groups and allow.get("group", True) and rng.random() < 0.15:
                members = [mailbox() for _ in range(rng.randrange(0 if allow.get("empty_group", True) else 1, 4))]
                out.append(["g", rng.choice([f"Team {tok('g')}", "undisclosed-recipients"]), members])
                used.add("addr:group" if members else "addr:empty-group")
            else:
                out.append(["a"] + mailbox())
        return out

    spec = {"subject": subject, "from": mailbox(), "to": alist(1, 5), "cc": alist(0, 3), "bcc": alist(0, 2),
            "reply_to": alist(0, 1, groups=False)}
    if len(flat(spec["to"])) + len(flat(spec["cc"])) > 4:
        used.add("addr:folded-list")
    feats += sorted(used)

    # ---- date / id
    style = rng.choice(DATE_STYLES) if mode == "hand" else "std"
    if style not in allow.get("date_styles", DATE_STYLES):
        style = "std"
    if style == "obs-year2":
        pass
    y = rng.choice([rng.randrange(1995, 2037), rng.randrange(1971, 2061)])
    mo, d = rng.randrange(1, 13), rng.randrange(1, 29)
    h, mi, s = rng.randrange(24), rng.randrange(60), rng.randrange(60)
    off = rng.choice([0, 60, 120, -300, -480, 330, 540, -180, 600])
    if style in ("zone-gmt", "zone-ut", "minus0000"):
        off = 0
    elif style == "zone-named":
        off = rng.choice(list(NAMED_ZONES.values()))
    elif style == "offset-odd":
        off = rng.choice(ODD_OFFSETS)
    elif style == "noseconds":
        s = 0
    elif style == "single-digit-day":
        d = rng.randrange(1, 10)
    if style == "obs-year2":
        y = rng.choice([rng.randrange(2000, 2037), rng.randrange(1995, 2000)])   # unambiguous under both the RFC (50) and POSIX (69) pivots
    spec["date"] = [y, mo, d, h, mi, s, off]
    spec["date_style"] = style
    feats.append("date:" + style)
    spec["message_id"] = rng.choice(["<{t}.{n}@mail.example.com>", "<{n}.{t}@[192.0.2.1]>", "<{t}${n}@Example.ORG>",
                                     "<{t}-{n}-{n}-{n}-{n}@very.long.host.name.example.com>"]).format(
        t=tok("i"), n=rng.randrange(10 ** 9))
    if depth == 0 and allow.get("no_message_id", True) and rng.random() < 0.08:
        spec["message_id"] = ""                          # no Message-ID header at all (a SHOULD, and EmailMessage does not add one)
        feats.append("mid:absent")
    extra = []
    if rng.random() < 0.6:
        pool = [("Received", f"from relay.example.net by mx.example.com with ESMTP id {tok('x')}; Mon, 01 Jan 2001 00:00:00 +0000"),
                ("X-Mailer", f"Mailer {tok('x')} 1.0"),
                ("Sender", f"Decoy {tok('x')} <{tok('x')}@decoy.example.com>"),
                ("Resent-Date", "Sat, 01 Jan 2000 12:00:00 +0000"),
                ("Resent-From", f"{tok('x')}@decoy.example.com"),
                ("Delivered-To", f"{tok('x')}@decoy.example.com"),
                ("Return-Path", f"<{tok('x')}@decoy.example.com>"),
                ("In-Reply-To", f"<{tok('x')}@decoy.example.com>"),
                ("References", f"<{tok('x')}@decoy.example.com> <{tok('x')}@decoy.example.com>"),
                ("Thread-Topic", f"decoy topic {tok('x')}"),
                ("X-Subject", f"decoy subject {tok('x')}"),
                ("X-Original-To", f"{tok('x')}@decoy.example.com"),
                ("Resent-Message-ID", f"<{tok('x')}@decoy.example.com>")]
        extra = rng.sample(pool, rng.randrange(1, 6))
        feats.append("hdr:decoys")
    hdr["extra"] = [list(e) for e in extra]
    hdr["extra_before"] = rng.randrange(len(extra) + 1)
    spec["hdr"] = hdr

    # ---- bodies
    shape = rng.choice(allow.get("shapes") or ["plain", "plain", "html", "alt", "alt", "alt"])
    fromlike = rng.random() < 0.3 and allow.get("fromlike", True)
    if fromlike:
        feats.append("body:fromlike-lines")
    body = {}

    def pick(kind):
        cs = rng.choice(CHARSETS)
        if cs not in allow.get("body_charsets", CHARSETS):
            cs = "utf-8"
        ctes = ["8bit", "quoted-printable", "base64"] + (["7bit"] if cs == "us-ascii" else [])
        ctes = [c for c in ctes if c in allow.get("body_ctes", ctes)] or ["base64"]
        cte = rng.choice(ctes)
        body[kind] = [cs, cte]
        feats.append(f"body:{kind}:{cs}:{cte}")
        return cs, cte

    spec["plain"] = spec["html"] = None
    if shape in ("plain", "alt"):
        cs, cte = pick("plain")
        longline = cte in ("quoted-printable", "base64") and rng.random() < 0.3
        spec["plain"] = body_text(rng, tok, "b", cs, fromlike, longline)
        if longline:
            feats.append("body:long-line")
    inline_n = 0
    if shape in ("html", "alt"):
        cs, cte = pick("html")
        inline_n = rng.choice([0, 0, 1, 2]) if allow.get("related", True) else 0
        cid = f"{tok('c')}@cid.example.com" if inline_n else None
        spec["html"] = html_text(rng, tok, cs, fromlike, cid)
    spec["body"] = body

    # ---- attachments
    atts = []
    for i in range(inline_n):
        atts.append({"filename": f"{tok('f')}.png", "ctype": "image/png", "kind": "png", "disp": "inline", "cte": "base64",
                     "cid": f"<{cid if i == 0 else tok('c') + '@cid.example.com'}>",
                     "data": PNG_SIG + bytes(rng.randrange(256) for _ in range(rng.randrange(20, 200)))})
    kinds = [k for k in ("txt", "csv", "html", "docx", "pdf", "xlsx", "txt-8bit", "txt-qp", "bin") if allow.get("att:" + k, True)]
    odd = [k for k in MISMATCHED if allow.get("att:" + k, True)]
    natt = rng.choice([0, 0, 0, 1, 1, 2, 3, 4]) if depth == 0 else 0
    natt = min(natt, allow.get("max_atts", 4))
    for _ in range(natt):
        k = rng.choice(odd) if odd and rng.random() < 0.15 else rng.choice(kinds)     # about one in seven is typed otherwise than it is named
        a = make_attachment(rng, tok, k, fx)
        if a["cte"] in ("7bit", "8bit") and pol == "SMTP":
            a["data"] = a["data"].replace(b"\n", b"\r\n")      # on the wire a 7bit/8bit text part *is* CRLF-terminated
        if rng.random() < 0.3:
            # many mail clients put a Content-ID on every part; a real attachment (Content-Disposition: attachment) stays one
            a["cid"] = f"<{tok('c')}@att.example.com>"
            feats.append("att:content-id")
        if k not in MISMATCHED and allow.get("nameless", True) and rng.random() < 0.06:
            a["filename"] = ""                            # no filename / name parameter: the declared type is all a reader has
            feats.append("att:nameless")
        elif allow.get("name_rfc2047", True) and rng.random() < 0.25:
            # the name as an RFC 2047 encoded word inside the quoted parameter (Outlook, Gmail, ...), not as RFC 2231
            a["name_style"] = rng.choice(["rfc2047", "rfc2047", "rfc2047-name"])
            a["name_charset"] = "iso-8859-1" if encodable(a["filename"], "iso-8859-1") and rng.random() < 0.4 else "utf-8"
            a["name_mode"] = rng.choice("BQ")
            feats.append("att:name-" + a["name_style"])
        atts.append(a)
    if fx.get("enc") and depth == 0 and allow.get("encrypted", True) and rng.random() < 0.04 and len(atts) - inline_n < allow.get("max_atts", 4):
        # a password-protected document among the attachments: the attachment iterator reports it (file-encrypted error)
        name, data, ctype, ext = rng.choice(fx["enc"])
        atts.insert(rng.randrange(inline_n, len(atts) + 1), {"filename": f"{tok('f')}.{ext}", "ctype": ctype, "kind": "enc", "disp": "attachment", "cte": "base64",
                                                             "data": data, "fixture": name})
        natt += 1
        feats.append("att:encrypted:" + ext)
    named = [a for a in atts if a["disp"] == "attachment" and a["filename"] and not a.get("mismatch")]
    if len(named) >= 2 and allow.get("same_name_twice", True) and rng.random() < 0.2:
        # two attachments of one message under the same file name, with different contents (Outlook's image001.png twice, two
        # "report.pdf" from different folders): names are not keys - each attachment keeps its own bytes, in its own place
        first, second = rng.sample(named, 2)
        same_kind = [a for a in named if a is not first and a["kind"] == first["kind"] and a["data"] != first["data"]]
        second = rng.choice(same_kind) if same_kind else second
        if second["data"] != first["data"]:
            second["filename"] = first["filename"]
            if second.get("name_style"):
                second["name_charset"] = "utf-8"         # (its own charset was chosen for its own name)
            feats.append("att:same-name-twice")
    if inline_n:
        feats.append(f"struct:related:{inline_n}")
    spec["atts"] = atts
    spec["wrap_mixed"] = (not [a for a in atts if a["disp"] != "inline"]) and rng.random() < 0.1
    nest = shape + ("+related" if inline_n else "") + ("+mixed" if natt or spec["wrap_mixed"] else "")
    feats.append("struct:" + nest)
    feats.append(f"att:n={natt}")
    feats += sorted({f"att:{a['kind']}:{a['cte']}" for a in atts if a["disp"] != "inline"} | {"att:mismatch:" + a["mismatch"] for a in atts if a.get("mismatch")})
    # ---- the content below another container than mixed / related (see _contain)
    spec["container"] = None
    if depth == 0 and natt and allow.get("containers", True) and rng.random() < 0.2:
        kinds_c = ["signed", "report", "parallel", "x-verif-unknown"] + (["alternative-outer"] * 3 if shape == "alt" else [])
        spec["container"] = rng.choice(kinds_c)
        if spec["container"] == "signed":
            atts.append({"filename": "smime.p7s", "ctype": "application/pkcs7-signature", "kind": "bin", "disp": "attachment", "cte": "base64", "of_wrapper": True,
                         "data": bytes(rng.randrange(256) for _ in range(rng.randrange(200, 900)))})
        feats.append("struct:container:" + spec["container"])
    # ---- further inline text parts next to the body: a list footer / a gateway's disclaimer.  "The body" of such a message is
    # its first text/plain (text/html) part, or all of them in document order - never a later one alone, never another order
    spec["extra_text"] = []
    if depth == 0 and allow.get("extra_text", True) and not spec["container"] and rng.random() < 0.12:
        for sub in rng.choice([["plain"], ["html"], ["plain", "html"], ["html", "plain"], ["plain", "plain"]]):
            cs = rng.choice(["utf-8", "us-ascii", "iso-8859-1"])
            cte = rng.choice(["7bit"] if cs == "us-ascii" else ["8bit", "quoted-printable", "base64"])
            sample = rng.choice(SAMPLES[cs])
            text = (f"-- \n{tok('b')} list footer {sample}\n{tok('b')}\n" if sub == "plain" else f"<div><p>{tok('h')} disclaimer {sample}</p><p>{tok('h')}</p></div>\n")
            spec["extra_text"].append({"subtype": sub, "text": text, "charset": cs, "cte": cte, "pos": rng.choice(["end", "end", "after-body"]), "disp": rng.choice([None, None, "inline"])})
        feats.append("struct:extra-text:" + "+".join(x["subtype"] for x in spec["extra_text"]))
    spec["features"] = sorted(set(feats))
    return spec


def text_parts(spec: dict, subtype: str) -> list[str]:
    """The inline text/<subtype> parts of the message in document order (the main body first, then the extra parts:
    those placed after the body before those at the end)."""
    main = [spec[subtype]] if spec.get(subtype) is not None else []
    extra = spec.get("extra_text") or []
    ordered = [x for x in extra if x["pos"] == "after-body"][::-1] + [x for x in extra if x["pos"] != "after-body"]
    return main + [x["text"] for x in ordered if x["subtype"] == subtype]


# Attachments whose declared type is a supported one but not the canonical type of the file name's extension (all seen
# in the wild: Outlook sends .csv as application/vnd.ms-excel, web mailers send Office files as application/zip or with
# the legacy type, anything textual as text/plain).  The file "on its own" is routed by its name (README: "extension
# (primary), MIME type (fallback)"), so the attachment must be, too.
MISMATCHED = {
    "csv-as-xls": ("csv", "application/vnd.ms-excel"),
    "xlsx-as-xls": ("xlsx", "application/vnd.ms-excel"),
    "docx-as-zip": ("docx", "application/zip"),
    "docx-as-doc": ("docx", "application/msword"),
    "html-as-txt": ("html", "text/plain"),
    "pdf-as-txt": ("pdf", "text/plain"),
    "csv-as-json": ("csv", "application/json"),
}


def make_attachment(rng, tok, kind: str, fx: dict) -> dict:
    if kind in MISMATCHED:
        base, ctype = MISMATCHED[kind]
        a = make_attachment(rng, tok, base, fx)
        while "." not in a["filename"]:                 # the name must say what the file is
            a = make_attachment(rng, tok, base, fx)
        return dict(a, ctype=ctype, cte="base64", mismatch=kind)
    cs = rng.choice(["utf-8", "utf-8", "us-ascii"])
    sample = rng.choice(SAMPLES[cs])
    fname_tok = tok("f")
    fname_tok = rng.choice([fname_tok] * 4 + [f"{fname_tok} {rng.choice(SAMPLES['utf-8'])}", f"{fname_tok}-" + "long-name-" * 9,
                                              f'{fname_tok} "q"; x', f"{fname_tok} {rng.choice(SAMPLES['utf-8'])} " + "läng-" * 14,
                                              # legitimate but unusual: path separators in the name, names beyond 240 bytes
                                              f"Income/Expenses {fname_tok}", f"C:\\Users\\{fname_tok}\\report", f"{fname_tok} " + "ausführlich-benannt-" * 14])
    if kind in ("txt", "txt-8bit", "txt-qp"):
        lines = [f"{tok('a')} {sample}", "From attachment line " + tok("a"), ">From the minutes of " + tok("a"), ">>From deeper in the thread " + tok("a"), tok("a")]
        data = ("\n".join(lines) + "\n").encode("utf-8")
        cte = {"txt": "base64", "txt-8bit": "8bit" if cs != "us-ascii" else "7bit", "txt-qp": "quoted-printable"}[kind]
        return {"filename": f"{fname_tok}.txt", "ctype": "text/plain", "kind": "txt", "disp": "attachment", "cte": cte, "data": data}
    if kind == "csv":
        rows = [[tok("a") for _ in range(3)] for _ in range(rng.randrange(1, 5))]
        data = ("\n".join(",".join(r) for r in rows) + "\n").encode("utf-8")
        return {"filename": f"{fname_tok}.csv", "ctype": "text/csv", "kind": "csv", "disp": "attachment",
                "cte": rng.choice(["base64", "quoted-printable"]), "data": data}
    if kind == "html":
        data = f"<html><head><title>{tok('a')}</title></head><body><p>{tok('a')} {sample}</p><p>{tok('a')}</p></body></html>\n".encode("utf-8")
        return {"filename": f"{fname_tok}.html", "ctype": "text/html", "kind": "html", "disp": "attachment", "cte": "base64", "data": data}
    if kind == "bin":
        data = bytes(rng.randrange(256) for _ in range(rng.randrange(1, 400)))
        return {"filename": f"{fname_tok}.bin", "ctype": "application/octet-stream", "kind": "bin", "disp": "attachment",
                "cte": "base64", "data": data}
    ctype = {"docx": "application/vnd.openxmlformats-officedocument.wordprocessingml.document",
             "pdf": "application/pdf",
             "xlsx": "application/vnd.openxmlformats-officedocument.spreadsheetml.sheet"}[kind]
    name, data = rng.choice(fx[kind])
    stem = rng.choice([fname_tok, f"{fname_tok} with blank", f"{fname_tok}.v2"])
    ext = rng.choice([kind, kind, kind, kind.upper(), ""])        # "" -> routed by MIME type only
    return {"filename": f"{stem}.{ext}" if ext else stem.replace(".", "_"), "ctype": ctype, "kind": kind, "disp": "attachment", "cte": "base64", "data": data,
            "fixture": name}


def nested_eml_attachment(rng, tok, fx: dict, pol: str, disp: str = "attachment", nameless: bool = False, lines: int | None = None) -> dict:
    """A message/rfc822 part whose inner message is a small plain-text message with short ASCII headers (nothing a
    re-serialising reader could legitimately re-fold).  ``disp``: "attachment" (forwarded as attachment) or "none"
    (forwarded inline: no Content-Disposition header, no file name - it is not an attachment, and its text is not the
    carrier's body either); ``nameless``: an attachment without filename parameter (what most clients write for an
    attached message); ``lines``: body length, so that several attached messages of one carrier differ in size."""
    inner = random_spec(rng, tok, fx, depth=1, allow={"hand": False, "related": False, "group": False})
    inner["hdr"] = {"mode": "stdlib", "policy": pol, "extra": []}
    inner["subject"] = f"{tok('s')} inner {tok('s')}"
    inner["from"] = [f"Inner {tok('n')}", _addr(rng, tok)]
    inner["to"] = [["a", "", _addr(rng, tok)]]
    inner["cc"] = inner["bcc"] = inner["reply_to"] = []
    inner["html"] = None
    inner["body"] = {"plain": ["us-ascii", "7bit"]}
    inner["plain"] = f"{tok('a')} inner body\n" + "".join(f"{tok('a')} line {i} of the inner message\n" for i in range(lines if lines is not None else rng.choice([0, 0, 1, 3, 8, 20]))) + f"{tok('a')}\n"
    inner["atts"] = []
    inner["wrap_mixed"] = False
    long_hdr = rng.random() < 0.5
    # "Message-ID: <71 chars>" is 83 columns: the writer folds it as "Message-ID:" CRLF SP "<...>"; a reader that
    # re-serialises the attached message instead of returning its bytes writes "Message-ID: " CRLF SP "<...>"
    inner["message_id"] = (f"<{tok('i')}-" + "0123456789-" * 3 + "@long.host.name.example.com>") if long_hdr else f"<{tok('i')}@in.example.com>"
    inner["features"] = ["inner", "inner:long-header" if long_hdr else "inner:short-headers"]
    return {"filename": "" if nameless or disp == "none" else f"{tok('f')}.eml", "ctype": "message/rfc822", "kind": "eml", "disp": disp, "cte": "8bit",
            "inner": inner, "data": b""}


def benign_wire_form(spec: dict) -> None:
    """Control form for the wire features: the same header block written by the hand writer with the Subject and
    the Message-ID on one line each."""
    h = spec["hdr"]
    if h["mode"] != "hand":
        h["mode"] = "hand"
        h.setdefault("subject_enc", ["B", "utf-8", "whole" if not is_ascii(spec["subject"]) else "mixed"])
        h.setdefault("name_mode", "B")
        h.setdefault("name_charset", "utf-8")
    h["subject_width"] = 998
    h["mid_folded"] = False


def force_second_60(spec: dict) -> None:
    """Risky form: a leap-second time of day (hh:mm:60), valid per RFC 5322 section 3.3."""
    spec["hdr"]["mode"] = "hand"
    spec["hdr"].setdefault("extra", [])
    d = spec["date"]
    d[5] = 59
    spec["date_style"] = "second-60"
    spec["features"] = sorted(set(f for f in spec["features"] if not f.startswith("date:")) | {"date:second-60", "risky:date-second-60"})


def force_fold_at_encoded_word(rng, tok, spec: dict) -> None:
    """Risky form: a hand-folded Subject with a line break exactly between an encoded-word and ordinary text."""
    cs = rng.choice(NONASCII_CHARSETS)
    h = spec["hdr"]
    h["mode"] = "hand"
    h.setdefault("extra", [])
    h["subject_enc"] = [rng.choice("BQ"), cs, "mixed"]
    h["fold_at_ew"] = True
    spec["subject"] = f"{tok('s')} {rng.choice(SAMPLES[cs])} {tok('s')}"
    spec["features"] = sorted(set(f for f in spec["features"] if not f.startswith("subj:")) | {f"subj:mixed:{cs}", "risky:fold-at-encoded-word"})


def raw_header_value(raw: bytes, name: str):
    """The still-folded value of the first header ``name`` of a rendered message (None when absent)."""
    head = re.split(rb"\r?\n\r?\n", raw, maxsplit=1)[0].decode("latin-1")
    m = re.search(r"(?im)^" + re.escape(name) + r":((?:.*)(?:\r?\n[ \t].*)*)", head)
    return m.group(1).rstrip("\r") if m else None


def decode_unstructured(raw_value: str, fold_ws: str = "literal") -> str:
    """Own RFC 2047 reader for an unstructured header value (validates the writers and gives the oracle the exact
    wire reading): unfold, decode encoded-words, drop white space between adjacent encoded-words, keep every
    other white-space character as it is.  ``fold_ws``: "literal" - RFC 5322 2.2.3, only the line break of a fold
    is removed (a tab continuation stays a tab); "blank" - the white-space character that follows the line break
    is read as one blank (the conventional reading of tab-folded headers)."""
    v = raw_value.rstrip("\r\n")
    v = re.sub(r"\r?\n[ \t]", " ", v) if fold_ws == "blank" else re.sub(r"\r?\n(?=[ \t])", "", v)
    out = []
    for tokn in re.split(r"([ \t]+)", v):
        if not tokn:
            continue
        if tokn.isspace():
            out.append(("ws", tokn))
            continue
        mm = re.fullmatch(r"=\?([^?]+)\?([bBqQ])\?([^?]*)\?=", tokn)
        if mm:
            cs, enc, payload = mm.groups()
            if enc in "bB":
                rawb = base64.b64decode(payload + "=" * (-len(payload) % 4))
            else:
                rawb = binascii.a2b_qp(payload.replace("_", " "), header=False)
            if out and out[-1][0] == "ws" and len(out) > 1 and out[-2][0] == "ew":
                out.pop()
            out.append(("ew", rawb.decode(cs)))
        else:
            out.append(("tx", tokn))
    return "".join(x for _, x in out)


def subject_readings(raw: bytes) -> list[str]:
    """The decoded Subject of a rendered message as the wire defines it, outer white space stripped:
    [literal unfolding, fold white space read as one blank] (one element when both agree)."""
    v = raw_header_value(raw, "Subject")
    if v is None:
        return [""]
    a, b = decode_unstructured(v, "literal").strip(), decode_unstructured(v, "blank").strip()
    return [a] if a == b else [a, b]


def light(spec: dict) -> dict:
    """The message reduced to its header block (what the header validations and wire readings need)."""
    return dict(spec, atts=[], wrap_mixed=False, plain=None, html=None, container=None, extra_text=[])


def header_probe(spec: dict) -> bytes:
    """The rendered Subject and Message-ID header lines of ``spec`` exactly as render_message() writes them (every
    header is folded on its own, so the other headers need not be built)."""
    pol = _pol(spec)
    if spec["hdr"]["mode"] != "stdlib":
        return hand_header_block(dict(spec, to=[], cc=[], bcc=[], reply_to=[]), pol.linesep).encode("ascii") + pol.linesep.encode("ascii")
    m = EmailMessage(policy=pol)
    m["Subject"] = spec["subject"]
    if spec["message_id"]:
        m["Message-ID"] = spec["message_id"]
    return _flatten(m, pol)


def wire_features(spec: dict, probe: bytes | None = None) -> list[str]:
    """Header features that only the rendered bytes show (the stdlib writer folds where it likes):
    plain-folded-subject            the Subject is folded and holds no encoded-word
    message-id-on-continuation-line the Message-ID value starts on a continuation line ("Message-ID:" CRLF SP "<id>")
    fold-at-encoded-word            the Subject is folded between an encoded-word and ordinary text
    fold-in-white-space-run         the Subject is folded inside or next to a run of white space (more than the one
                                    continuation character after the line break, or white space before it)"""
    raw = probe if probe is not None else header_probe(spec)
    out = []
    v = (raw_header_value(raw, "Subject") or "").rstrip("\r\n")
    if re.search(r"\r?\n[ \t]", v) and "=?" not in v:
        out.append("plain-folded-subject")
    if re.search(r"[ \t]\r?\n[ \t]|\r?\n[ \t]{2}", v):
        out.append("fold-in-white-space-run")
    for m in re.finditer(r"(\S*)[ \t]*\r?\n[ \t]+(?=(\S*))", v):
        if m.group(1) and m.group(2) and _is_ew(m.group(1)) != _is_ew(m.group(2)):
            out.append("fold-at-encoded-word")
            break
    v = raw_header_value(raw, "Message-ID") or ""
    if re.match(r"[ \t]*\r?\n", v):
        out.append("message-id-on-continuation-line")
    return out


def header_roundtrip_problems(spec: dict) -> list[str]:
    """Writer validation for stdlib-rendered header blocks (they carry ASCII-only address headers): the Subject
    is read back with this module's own RFC 2047 reader, address headers / date / id with the modern stdlib
    parser (email.policy.default — the header-registry code, not decode_header()/getaddresses() that the
    extractors use).  Names the headers whose value does not equal the model, so that a writer fault (CPython's
    refolding is known to mangle some values) is kept out of the workload instead of being blamed on a reader."""
    import email

    raw = render_message(light(spec))
    m = email.message_from_bytes(raw, policy=_policy.default)
    c = email.message_from_bytes(raw)
    bad = []
    try:
        if spec["subject"] not in subject_readings(raw):
            bad.append("Subject")
    except Exception:  # noqa: BLE001
        bad.append("Subject")
    for h, k in (("From", None), ("To", "to"), ("Cc", "cc"), ("Bcc", "bcc"), ("Reply-To", "reply_to")):
        want = [list(spec["from"])] if k is None else flat(spec.get(k))
        try:
            hv = m[h]
            got = [[a.display_name, a.addr_spec] for a in hv.addresses] if hv is not None else []
        except Exception:  # noqa: BLE001
            got = None
        if got != want:
            bad.append(h)
    try:
        if m["Date"].datetime != instant(spec["date"]):
            bad.append("Date")
    except Exception:  # noqa: BLE001
        bad.append("Date")
    if str(c["Message-ID"] or "").strip() != spec["message_id"]:
        bad.append("Message-ID")
    return bad


def to_hand_mode(spec: dict) -> None:
    h = spec["hdr"]
    h["mode"] = "hand"
    h.setdefault("subject_enc", ["B", "utf-8", "whole" if not is_ascii(spec["subject"]) else "mixed"])
    h.setdefault("name_mode", "B")
    h.setdefault("name_charset", "utf-8")
    spec["features"] = sorted(set(f.replace("hdr:stdlib", "hdr:hand-after-stdlib-fault") for f in spec["features"]))


# ----------------------------------------------------------------------------- JSON (replay) form
def spec_to_json(spec: dict) -> dict:
    s = {k: v for k, v in copy.deepcopy(spec).items() if not k.startswith("_")}      # "_..." keys: derived caches of the check
    for a in s.get("atts", []):
        a["data"] = {"_b64": base64.b64encode(a["data"]).decode("ascii")}
        if "inner" in a:
            a["inner"] = spec_to_json(a["inner"])
    return s


def spec_from_json(s: dict) -> dict:
    s = copy.deepcopy(s)
    for a in s.get("atts", []):
        a["data"] = base64.b64decode(a["data"]["_b64"])
        if "inner" in a:
            a["inner"] = spec_from_json(a["inner"])
    return s


def self_test() -> None:
    """Cross-validate the hand-written pieces against the standard library before trusting them."""
    import email
    import email.header
    import email.utils
    import mailbox
    import os
    import tempfile

    for cs in NONASCII_CHARSETS:
        for mode in "BQ":
            for text in SAMPLES[cs]:
                t = f"qs00001z {text}, (x) \"y\" qs00002z"
                for style in ("whole", "mixed"):
                    atoms = encode_unstructured(t, cs, mode, style)
                    assert all(len(a) <= 75 for a in atoms if a.startswith("=?")), atoms
                    hv = " ".join(atoms)
                    got = str(email.header.make_header(email.header.decode_header(hv)))
                    assert got == t, (cs, mode, style, got, t)
                    assert decode_unstructured(fold("Subject", atoms, "\r\n", 40, ew_fold="never")[9:]).strip() == t, (cs, mode, style)
    # significant interior white space: the hand writer against this module's reader, the modern stdlib parser
    # (email.policy.default, literal unfolding) and email.header.decode_header
    for cs in CHARSETS:
        ecs = "utf-8" if cs == "us-ascii" else cs
        for kind, ws in SUBJECT_WS.items():
            if not encodable(ws, ecs):
                continue
            t = f"qs00001z{ws}{SAMPLES[cs][0]} qs00002z{ws}x{ws}{SAMPLES[cs][-1]}"
            for mode in "BQ":
                for style in ("whole", "mixed"):
                    for cont in " \t":
                        atoms = encode_unstructured(t, ecs, mode, style)
                        raw = fold("Subject", atoms, "\r\n", 40, cont, ew_fold="never").encode("ascii") + b"\r\nbody\r\n"
                        rd = subject_readings(raw)
                        assert t in rd, (cs, kind, mode, style, cont, t, rd)
                        assert str(email.message_from_bytes(raw, policy=_policy.default)["Subject"]) in rd, (cs, kind, mode, style, cont)
                        assert str(email.header.make_header(email.header.decode_header(" ".join(atoms)))) == t, (cs, kind, mode, style)
    for style in DATE_STYLES:
        d7 = [2024, 3, 5, 7, 8, 0 if style == "noseconds" else 9,
              -300 if style == "zone-named" else 0 if style in ("zone-gmt", "zone-ut", "minus0000") else 345]
        s = render_date(d7, style)
        p = email.utils.parsedate_tz(s)
        assert p is not None and email.utils.mktime_tz(p) == instant(d7).timestamp(), (style, s, p)
    raws = [b"From: a@example.com\r\nSubject: x\r\n\r\nline\r\nFrom me 2024\r\n>From you\r\n", b"From: b@example.com\n\nFrom\n"]
    data, esc = write_mbox(raws, [("a@example.com", asctime([2024, 1, 2, 3, 4, 5, 0]))] * 2)
    assert esc == 2
    fd, path = tempfile.mkstemp(suffix=".mbox")
    try:
        os.write(fd, data)
        os.close(fd)
        box = mailbox.mbox(path, create=False)
        msgs = [box[k] for k in box.keys()]
        assert len(msgs) == 2 and msgs[0].get_payload() == "line\n>From me 2024\n>>From you\n", [m.get_payload() for m in msgs]
        box.close()
    finally:
        os.unlink(path)
