"""HTML-family writers with ground truth: .html, .mhtml (HTML as a MIME part), .epub (chapters)."""
from __future__ import annotations

import io
import random
import zipfile
from email.message import EmailMessage
from xml.sax.saxutils import escape

from .expect import Expect
from .ooxml import _rand_image
from .tokens import Tokens

HTML_FEATURES = {
    "trailing-ampersand-text": "the markup ends in running text, without closing tags, whose last word holds a bare '&' (twin: the word 'and')",
    "empty-table": "a table whose cells are all empty between two filled tables (twin: its first cell is filled)",
    "title-row-colspan": "a table whose first row is one cell spanning the three columns of the rows below (twin: three cells)",
    "nested-table": "a table inside a td (twin: the inner table after the outer one)",
    "nested-table-deep": "a table in a cell of a table in a cell of a table (twin: the same three tables with one level of nesting)",
    "cell-two-paragraphs": "<td><p>A</p><p>B</p></td> (twin: <td>A B</td>)",
    "br-in-heading": "<h2>A<br>B</h2> (twin: <h2>A B</h2>)",
    "br-in-cell": "<td>A<br>B</td> (twin: <td>A B</td>)",
    "unclosed-p": "<p>A<p>B without end tags (twin: closed)",
    "inline-block-siblings": "<div>A</div><span>B</span> directly adjacent (twin: both div)",
}
EPUB_FEATURES = {
    "href-plus": "a chapter file whose name contains '+' (twin: plain name)",
    "href-dot-segments": "a chapter whose manifest href walks through dot segments (images/../text/ch.xhtml, ./text/ch.xhtml - relative references as tools that keep the OPF elsewhere write them) (twin: the plain href)",
    "href-percent-encoded": "a chapter file whose name contains a blank and a non-ASCII letter, percent-encoded in the manifest href (twin: plain name)",
    "empty-table": "a table whose cells are all empty between two filled tables (twin: its first cell is filled)",
    "title-row-colspan": "a table whose first row is one cell spanning the three columns of the rows below (twin: three cells)",
    "nested-table": "a table inside a td (twin: sequential tables)",
    "nested-table-deep": "a table in a cell of a table in a cell of a table (twin: the same three tables with one level of nesting)",
    "non-xhtml-spine-item": "an image item listed in the spine between two chapters (twin: not in the spine)",
    "chapter-without-body-text": "a chapter whose body has only an image (twin: has a paragraph)",
}


def _body(rng, tk: Tokens, exp: Expect, unit: int, feature, twin, xhtml: bool, tables_in_text: bool):
    """Random block sequence; returns html string.  Table cell tokens go to exp.text or exp.table_only."""
    br = "<br/>" if xhtml else "<br>"
    out = []
    hr_rng = random.Random(f"html-hr:{rng.getstate()[1][:4]}:{unit}")      # (a stream of its own, different per document, that leaves the main stream alone)

    def w(cls, lo=1, hi=3, heading=False):
        return [exp.text(tk.new(cls), unit, heading) for _ in range(rng.randint(lo, hi))]

    def cellw(lo=1, hi=2):
        if tables_in_text:
            return [exp.text(tk.new("c"), unit) for _ in range(rng.randint(lo, hi))]
        return [exp.table_only(tk.new("c"), unit) for _ in range(rng.randint(lo, hi))]

    def inline():
        parts = []
        for _ in range(rng.randint(1, 3)):
            k = rng.random()
            if k < 0.5:
                parts.append(" ".join(w("b")))
            elif k < 0.65:
                parts.append(f"<b>{' '.join(w('b', 1, 2))}</b>")
            elif k < 0.8:
                parts.append(f'<a href="https://example.org/x?a=1&amp;b=2">{" ".join(w("k", 1, 2))}</a>')
            elif k < 0.9:
                parts.append(f"<span class=\"c\">{' '.join(w('b', 1, 2))}</span>")
            else:
                parts.append(f"{w('b', 1, 1)[0]}{br}{w('b', 1, 1)[0]}")
            if rng.random() < 0.2:
                # removed markup in the middle of running text: what follows it stays where it is
                r = exp.out(tk.new("r"))
                parts.append(rng.choice([f'<script type="text/javascript">var a = "{r}";</script>', f"<style>.{r} {{color: red}}</style>", f"<!-- {r} -->",
                                         f"<noscript>{r}</noscript>"]))
                parts.append(" ".join(w("v", 1, 2)))
        return " ".join(parts)

    def table(rows, cols, nested=None, feat=None, blank=None):
        """blank: None = random empty cells; "all" = every cell empty; "all-but-first" = its control twin."""
        grid, trs = [], []
        for i in range(rows):
            tds, grow = [], []
            for j in range(cols):
                tag = "th" if i == 0 and rng.random() < 0.5 else "td"
                if (rng.random() < 0.1 and (i or j)) if blank is None else (blank == "all" or (i, j) != (0, 0)):
                    # XML serialisers (ElementTree, lxml) write an empty element in the short form
                    tds.append(rng.choice([f"<{tag}/>", f"<{tag} />"]) if xhtml and (i * 7 + j) % 2 else f"<{tag}></{tag}>")
                    grow.append({"empty": True})
                    continue
                t = cellw()
                inner = " ".join(t)
                if xhtml and not tables_in_text and rng.random() < 0.3:
                    # EPUB cells with several block elements written without white space between the tags
                    t2 = cellw(1, 1)
                    inner = f"<p>{' '.join(t)}</p><p>{' '.join(t2)}</p>" if rng.random() < 0.5 else f"<div>{' '.join(t)}</div><ul><li>{' '.join(t2)}</li></ul>"
                    t = t + t2
                if feat == "cell-two-paragraphs" and i == 0 and j == 0:
                    t2 = cellw(1, 1)
                    inner = f"<p>{' '.join(t)}</p><p>{' '.join(t2)}</p>" if not twin else f"{' '.join(t)} {' '.join(t2)}"
                    t = t + t2
                if feat == "br-in-cell" and i == 0 and j == 0:
                    t2 = cellw(1, 1)
                    inner = f"{' '.join(t)}{br}{' '.join(t2)}" if not twin else f"{' '.join(t)} {' '.join(t2)}"
                    t = t + t2
                if nested is not None and i == 0 and j == 0:
                    # the cell goes on after the nested table: its own words before AND after it
                    inner += nested()
                    tail = cellw(1, 1)
                    inner += " " + " ".join(tail)
                    t = t + tail
                tds.append(f"<{tag}>{inner}</{tag}>")
                grow.append({"toks": t})
            trs.append(f"<tr>{''.join(tds)}</tr>")
            grid.append(grow)
        return f"<table><tbody>{''.join(trs)}</tbody></table>", grid

    n = rng.randint(2, 9)
    fat = n // 2
    for b in range(n):
        k = rng.random()
        if k < 0.2:
            lvl = rng.randint(1, 3)
            out.append(f"<h{lvl}>{' '.join(w('h', 1, 2, True))}</h{lvl}>")
        elif k < 0.55:
            out.append(f"<p>{inline()}</p>")
        elif k < 0.7:
            items = "".join(f"<li>{' '.join(w('l', 1, 2))}</li>" for _ in range(rng.randint(1, 3)))
            out.append(f"<ul>{items}</ul>")
        elif k < 0.85:
            xml, grid = table(rng.randint(1, 3), rng.randint(1, 3))
            out.append(xml)
            exp.tables.append({"grid": grid, "unit": unit + 1})
        elif k < 0.92:
            r = exp.out(tk.new("r"))
            out.append(f"<!-- {r} -->")
            out.append(f"<div>{' '.join(w('v', 1, 2))}</div>")
            if hr_rng.random() < 0.5:
                # running text directly before and after a rule, in one parent (a footer: <hr>Contact ...)
                hr = "<hr/>" if xhtml else hr_rng.choice(["<hr>", "<hr/>", '<hr class="x">'])
                out.append(f"<div>{' '.join(w('b', 1, 2))}{hr}{' '.join(w('b', 1, 2))} <b>{' '.join(w('b', 1, 1))}</b></div>")
        else:
            r1, r2 = exp.out(tk.new("r")), exp.out(tk.new("r"))
            out.append(f'<script type="text/javascript">var a = "{r1}";</script><style>.{r2} {{color: red}}</style>')
            out.append(f"<div>{' '.join(w('v', 1, 2))}</div>")
        if feature and b == fat:
            if feature == "nested-table":
                if twin:
                    o, og = table(2, 2)
                    mid = f"<p>{' '.join(w('b', 1, 1))}</p>"
                    i_, ig = table(2, 2)
                    exp.tables += [{"grid": og, "unit": unit + 1}, {"grid": ig, "unit": unit + 1}]
                    out.append(o + mid + i_)
                else:
                    o, og = table(2, 2, nested=lambda: table(2, 2)[0])
                    exp.nested_tables = 2
                    exp.tables_claimed = False
                    out.append(o)
            elif feature == "title-row-colspan":
                # a ragged table: one title cell spanning the columns of the body rows below (twin: the title row has one cell per column)
                cols = 3
                title = cellw(1, 2)
                grid = [[{"toks": title}] if not twin else [{"toks": title}] + [{"empty": True}] * (cols - 1)]
                trs = [f'<tr><th colspan="{cols}">{" ".join(title)}</th></tr>' if not twin else f'<tr><th>{" ".join(title)}</th>' + "<th></th>" * (cols - 1) + "</tr>"]
                for _ in range(3):
                    row = [cellw(1, 1) for _ in range(cols)]
                    grid.append([{"toks": t} for t in row])
                    trs.append("<tr>" + "".join(f"<td>{' '.join(t)}</td>" for t in row) + "</tr>")
                out.append(f"<table><tbody>{''.join(trs)}</tbody></table>")
                exp.tables.append({"grid": grid, "unit": unit + 1})
            elif feature == "empty-table":
                for k, bl in enumerate((None, "all-but-first" if twin else "all", None)):
                    xml, g = table(2, 2 + (k == 1), blank=bl)
                    exp.tables.append({"grid": g, "unit": unit + 1})
                    out.append(xml)
                    out.append(f"<p>{' '.join(w('b', 1, 2))}</p>")
            elif feature == "nested-table-deep":
                if twin:         # the same three tables, one level of nesting only
                    o, og = table(2, 2, nested=lambda: table(2, 2)[0])
                    t3, g3 = table(2, 2)
                    out.append(o + t3)
                else:            # table in a cell of a table in a cell of a table
                    o, og = table(2, 2, nested=lambda: table(2, 2, nested=lambda: table(2, 2)[0])[0])
                    out.append(o)
                exp.nested_tables = 3
                exp.tables_claimed = False
            elif feature in ("cell-two-paragraphs", "br-in-cell"):
                xml, grid = table(2, 2, feat=feature)
                out.append(xml)
                exp.tables.append({"grid": grid, "unit": unit + 1})
            elif feature == "br-in-heading":
                a, b2 = w("h", 1, 1, True)[0], w("h", 1, 1, True)[0]
                out.append(f"<h2>{a}{br}{b2}</h2>" if not twin else f"<h2>{a} {b2}</h2>")
            elif feature == "unclosed-p":
                a, b2 = w("b", 1, 1)[0], w("b", 1, 1)[0]
                out.append(f"<div><p>{a}<p>{b2}</div>" if not twin else f"<div><p>{a}</p><p>{b2}</p></div>")
            elif feature == "inline-block-siblings":
                a, b2 = w("b", 1, 1)[0], w("b", 1, 1)[0]
                out.append(f"<div>{a}</div><span>{b2}</span>" if not twin else f"<div>{a}</div><div>{b2}</div>")
    return "".join(out)


def _html_doc(seed, feature, twin, fmt):
    rng = random.Random(f"html:{seed}")
    tk = Tokens()
    exp = Expect(fmt)
    exp.literals = ["R and D", "R&D", "R", "D"]   # every non-token visible string this writer emits: the rest of the output must hold no letter or digit (C02 'no text that is not in the source')
    exp.unit_mode = "exact"
    exp.n_units = 1
    exp.join_equality = True
    exp.tables_claimed = True
    if feature:
        exp.features.add(feature if not twin else feature + "#twin")
    pay = ["", " é", " 😀", " Generation Z", " A-Z", " v1.0", " 100%", " (draft)"]
    meta = {"title": exp.ignore(tk.new("t")) + rng.choice(pay), "author": exp.ignore(tk.new("t")) + rng.choice(pay),
            "keywords": exp.ignore(tk.new("t")), "description": exp.ignore(tk.new("t")) + rng.choice(pay)}
    exp.meta = dict(meta)
    body = _body(rng, tk, exp, 0, feature, twin, xhtml=False, tables_in_text=True)
    tail = "</body></html>"
    if feature == "trailing-ampersand-text":
        # the markup ends in running text (no closing tags) whose last word holds a bare '&' (twin: the word 'and')
        a, b = exp.text(tk.new("b"), 0), exp.text(tk.new("b"), 0)
        tail = f"<p>{a} {b} R and D" if twin else f"<p>{a} {b} R&D"
    charset, decl = "utf-8", '<meta charset="utf-8">'
    if feature == "legacy-charset-declared":
        crng = random.Random(f"html-charset:{seed}")
        for k in ("title", "author", "description"):
            meta[k] = meta[k].split(" ")[0] + crng.choice([" Caf\u00e9 Z\u00fcrich", " \u00c5ngstr\u00f6m", " pi\u00f1ata \u00a9"])
        exp.meta = dict(meta)
        legacy = crng.choice(["windows-1252", "ISO-8859-1", "iso-8859-15", "cp1252"])
        charset = "utf-8" if twin else legacy
        decl = crng.choice([
            "<meta charset={cs}>", '<meta charset="{cs}">', "<meta charset='{cs}' />",
            '<meta http-equiv="Content-Type" content="text/html; charset={cs}">',
            '<meta content="text/html; charset={cs}" http-equiv="Content-Type">',
            "<META HTTP-EQUIV='content-type' CONTENT='text/html;charset={cs}'>",
            '<meta name="generator" content="verif"><meta   http-equiv=Content-Type   content="text/html; charset={cs}" >',
            '<meta id="m1" content="text/html;  charset={cs}" http-equiv="content-type" />',
        ]).format(cs=charset.upper() if crng.random() < 0.3 else charset)
    head_open, head_close = ("", "") if (feature == "no-head-tags" and not twin) else ("<head>", "</head>")
    html = (f'<!DOCTYPE html><html lang="en">{head_open}{decl}<title>{escape(meta["title"])}</title>'
            f'<meta name="author" content="{escape(meta["author"], {chr(34): "&quot;"})}"><meta name="keywords" content="{meta["keywords"]}">'
            f'<meta name="description" content="{escape(meta["description"], {chr(34): "&quot;"})}">{head_close}<body>{body}{tail}')
    return html.encode("iso-8859-1" if charset.lower() == "iso-8859-1" else ("iso-8859-15" if charset.lower() == "iso-8859-15" else ("cp1252" if charset != "utf-8" else "utf-8"))), exp



def build_html(seed, feature=None, twin=False):
    return _html_doc(seed, feature, twin, "html")


def build_mhtml(seed, feature=None, twin=False):
    data, exp = _html_doc(seed, feature, twin, "mhtml")
    rng = random.Random(f"mhtml:{seed}")
    msg = EmailMessage()
    msg["From"] = "<Saved by verif>"
    msg["Subject"] = "page"
    msg["MIME-Version"] = "1.0"
    msg["Snapshot-Content-Location"] = "https://example.org/page.html"
    msg.set_content(data.decode("utf-8"), subtype="html", charset="utf-8", cte=rng.choice(["quoted-printable", "base64"]))
    msg.make_related()
    im = _rand_image(rng, 1)
    msg.add_related(im["data"], maintype="image", subtype=im["ctype"].split("/")[1], cid="<img1@verif>")
    msg.set_boundary(f"----=_verif_{seed}_boundary")     # the stdlib draws a random boundary otherwise: bytes must be a function of the seed
    from email import policy
    return msg.as_bytes(policy=policy.SMTP), exp


def build_epub(seed, feature=None, twin=False):
    rng = random.Random(f"epub:{seed}")
    tk = Tokens()
    exp = Expect("epub")
    exp.literals = []   # every non-token visible string this writer emits: the rest of the output must hold no letter or digit (C02 'no text that is not in the source')
    exp.unit_mode = "exact"
    exp.join_equality = True
    exp.tables_claimed = True
    exp.images_claimed = True
    if feature:
        exp.features.add(feature if not twin else feature + "#twin")
    risky = feature if not twin else None
    pay = ["", " é", " 😀", " Generation Z", " A-Z", " v1.0", " 100%", " (draft)"]
    meta = {"title": exp.ignore(tk.new("t")) + rng.choice(pay), "author": exp.ignore(tk.new("t")) + rng.choice(pay),
            "subject": exp.ignore(tk.new("t")), "description": exp.ignore(tk.new("t")) + rng.choice(pay)}
    exp.meta = dict(meta)
    n_ch = rng.randint(1, 6)
    files: dict[str, bytes] = {}
    manifest, spine = [], []
    fch = rng.randrange(n_ch)
    n_img = 0
    fname_rng = random.Random(f"epubnames:{seed}")
    for c in range(n_ch):
        empty = rng.random() < 0.1 and n_ch > 1 and c != fch
        if feature == "chapter-without-body-text" and c == fch:
            body = '<p><img src="../images/x.png" alt=""/></p>' if not twin else f"<p>{exp.text(tk.new('b'), c)}</p>"
        elif empty:
            body = "<p> </p>"
        else:
            body = _body(rng, tk, exp, c, feature if (c == fch and feature in ("nested-table", "nested-table-deep", "empty-table", "title-row-colspan")) else None, twin, xhtml=True, tables_in_text=False)
        ttl = exp.ignore(tk.new("t"))
        # chapter file names: plain, with '+', or with a blank (written percent-encoded in the manifest, as an IRI reference must be)
        style = "plain" if feature not in (None, "href-plus", "href-percent-encoded") else fname_rng.choice(["plain"] * 5 + ["plus"] * 2)
        if feature in ("href-plus", "href-percent-encoded") and c == fch:
            style = "plain" if twin else ("plus" if feature == "href-plus" else "blank")
        fname, href = {"plain": (f"ch{c + 1}.xhtml", f"ch{c + 1}.xhtml"), "plus": (f"c++{c + 1}_q+a.xhtml", f"c++{c + 1}_q+a.xhtml"),
                       "blank": (f"chapter {c + 1} é.xhtml", f"chapter%20{c + 1}%20%C3%A9.xhtml")}[style]
        files[f"OEBPS/text/{fname}"] = (f'<?xml version="1.0" encoding="utf-8"?><!DOCTYPE html><html xmlns="http://www.w3.org/1999/xhtml"><head><title>{ttl}</title></head>'
                                                f"<body>{body}</body></html>").encode()
        folder = "text/"
        if risky == "href-dot-segments" and c == fch:
            folder = fname_rng.choice(["images/../text/", "./text/", "text/./", "text/sub/../", "../OEBPS/text/"])
        manifest.append(f'<item id="ch{c + 1}" href="{folder}{href}" media-type="application/xhtml+xml"/>')
        spine.append(f'<itemref idref="ch{c + 1}"/>')
        if rng.random() < 0.4:
            n_img += 1
            im = _rand_image(rng, n_img)
            # picture file names: plain, or with characters that must be percent-encoded in the manifest href ('#', '%', blank)
            istyle = fname_rng.choice(["plain"] * 4 + ["hash", "percent"])
            base, enc = {"plain": (f"img{n_img}", f"img{n_img}"), "hash": (f"fig#{n_img}", f"fig%23{n_img}"), "percent": (f"100% of {n_img}", f"100%25%20of%20{n_img}")}[istyle]
            name = f"images/{base}{im['ext']}"
            files["OEBPS/" + name] = im["data"]
            manifest.append(f'<item id="img{n_img}" href="images/{enc}{im["ext"]}" media-type="{im["ctype"]}"/>')
            exp.images.append({"sha": im["sha"], "ctype": im["ctype"], "w": None, "h": None, "unit": None})
            if feature == "non-xhtml-spine-item" and c == fch and not twin:
                spine.append(f'<itemref idref="img{n_img}"/>')
        elif feature == "non-xhtml-spine-item" and c == fch:
            n_img += 1
            im = _rand_image(rng, n_img)
            name = f"images/img{n_img}{im['ext']}"
            files["OEBPS/" + name] = im["data"]
            manifest.append(f'<item id="img{n_img}" href="{name}" media-type="{im["ctype"]}"/>')
            exp.images.append({"sha": im["sha"], "ctype": im["ctype"], "w": None, "h": None, "unit": None})
            if not twin:
                spine.append(f'<itemref idref="img{n_img}"/>')
    exp.n_units = n_ch
    exp.expected_numbers = [i + 1 for i, ref in enumerate(spine) if 'idref="ch' in ref]
    opf = (f'<?xml version="1.0" encoding="utf-8"?><package xmlns="http://www.idpf.org/2007/opf" version="3.0" unique-identifier="id"><metadata xmlns:dc="http://purl.org/dc/elements/1.1/">'
           f'<dc:identifier id="id">urn:uuid:verif-{seed}</dc:identifier><dc:title>{escape(meta["title"])}</dc:title><dc:creator>{escape(meta["author"])}</dc:creator>'
           f'<dc:subject>{meta["subject"]}</dc:subject><dc:description>{escape(meta["description"])}</dc:description><dc:language>en</dc:language></metadata>'
           f'<manifest>{"".join(manifest)}</manifest><spine>{"".join(spine)}</spine></package>')
    bio = io.BytesIO()
    dt = (2024, 1, 2, 3, 4, 6)
    with zipfile.ZipFile(bio, "w") as z:
        z.writestr(zipfile.ZipInfo("mimetype", date_time=dt), "application/epub+zip", zipfile.ZIP_STORED)
        z.writestr(zipfile.ZipInfo("META-INF/container.xml", date_time=dt),
                   '<?xml version="1.0"?><container version="1.0" xmlns="urn:oasis:names:tc:opendocument:xmlns:container"><rootfiles>'
                   '<rootfile full-path="OEBPS/content.opf" media-type="application/oebps-package+xml"/></rootfiles></container>', zipfile.ZIP_DEFLATED)
        z.writestr(zipfile.ZipInfo("OEBPS/content.opf", date_time=dt), opf, zipfile.ZIP_DEFLATED)
        for name, data in files.items():
            z.writestr(zipfile.ZipInfo(name, date_time=dt), data, zipfile.ZIP_DEFLATED)
    return bio.getvalue(), exp


HTML_ONLY_FEATURES = dict(HTML_FEATURES, **{
    "no-head-tags": "the optional <head> start and end tags are left out (title and meta elements directly after <html>) (twin: with the tags)",
    "legacy-charset-declared": "a page in windows-1252 / ISO-8859-1 with non-ASCII letters in title, author and description, the charset declared by a meta tag in one of the "
                               "legal forms (unquoted charset attribute, http-equiv first or content first, upper case, single quotes, after other meta tags) (twin: the same form declaring utf-8)",
})

BUILDERS = {
    "html": (build_html, HTML_ONLY_FEATURES, "html", ".html"),
    "mhtml": (build_mhtml, HTML_FEATURES, "mhtml", ".mhtml"),
    "epub": (build_epub, EPUB_FEATURES, "epub", ".epub"),
}
