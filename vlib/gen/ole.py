"""Hand-written writers for the legacy OLE2 formats (.ppt, .xls, .doc) with recorded ground truth.

Container: ``cfb.make_cfb``; metadata: ``cfb.summary_information``.  Nothing here uses olefile / xlrd to
*write*; they are only used by ``self_test()`` to cross-validate the writers outside the extractors.

What the three real extractors present, and therefore how the ground truth is recorded
--------------------------------------------------------------------------------------
ppt   one unit per slide, text = title, body texts, other texts (the documented order; the writer emits the
      text atoms of a slide in exactly that order, one paragraph per text atom in clean cases).  Speaker notes
      (class n) are *out*.  Placeholder text lives in the Document's SlideListWithText (instance 0) as PowerPoint
      writes it; the Slide containers hold the shapes with OutlineTextRefAtoms; notes text lives in the Notes
      containers' drawings; MainMaster with the usual "Click to edit ..." texts; PersistDirectory / UserEditAtom /
      "Current User" are consistent.  Pictures (BStore in the PPDrawingGroup, blips in the "Pictures" stream,
      picture shapes with a pib) only occur in the two picture features: ``PptUnit.get_images()`` is always empty.
xls   one unit per sheet; ``iterate_tables()`` yields one table per sheet = header row (first sheet row, every
      cell *as text*) followed by the data rows with native values (int when integral, float, bool, ISO date
      string ``YYYY-MM-DD`` for whole-day dates, None for empty).  The extractor builds the rows as dicts keyed
      by the first row, so the expected grid is simply the sheet's cell rectangle, row 0 included, and clean
      sheets have >= 2 rows and distinct non-empty text headers.  Sheet names are unclaimed (README: "no sheet
      names").  Cells: LABELSST / LABEL / NUMBER / RK / MULRK / BOOLERR / BLANK / FORMULA (cached number) / dates
      through an XF with built-in format 14.  Clean workbooks carry 0..2 small pictures (inline blips in the
      globals' MSODRAWINGGROUP, MSODRAWING + OBJ on a sheet); they are workbook-level in the API (unit None).
doc   flowing text: one unit, or one per detected heading section.  The extractor knows no styles: headings,
      list items and table cells (cell marks \x07) are ordinary paragraph text (tables unclaimed).  Footnote text
      is a separate field (ignored), header/footer and annotation text are *out*, text-box text is never read
      (ignored).  ``get_full_text()`` prepends the metadata title: the title token is recorded with
      ``exp.ignore``.  Spec-sized FIB (0x384 bytes, nFib 0xC1), text at fcMin 0x400/0x600/0x800 as one 16-bit or one
      8-bit (compressed) piece, Clx with the piece table in 1Table.  Clean documents carry 0..2 inline PNG
      pictures (PICF + shape + BSE + blip) behind the text in the WordDocument stream (LibreOffice's layout).
"""
from __future__ import annotations

import datetime as _dt
import hashlib
import random
import struct

from . import cfb
from . import images as IMG
from .expect import Expect
from .tokens import Tokens

PPT_FEATURES = {
    "slide-without-text": "a slide without any text between two slides with text (twin: the slide has a title)",
    "textless-slides-with-notes": "no slide has placeholder text but the notes pages have text (twin: every slide has a title)",
    "textbox-in-slide-drawing": "text box whose text lives in the Slide container's drawing (ClientTextbox) (twin: same text as an 'other' block of the SlideListWithText)",
    "text-in-slide-drawings": "LibreOffice layout: SlideListWithText holds only SlidePersistAtoms, every text lives in its Slide container's drawing (twin: PowerPoint layout, text in the SlideListWithText)",
    "picture-per-slide": "1..3 pictures, the i-th on slide i (BStore + Pictures stream + picture shapes) (twin: no pictures)",
    "two-pictures-on-one-slide": "two pictures on the same slide of a deck with >= 2 slides (twin: no pictures)",
    "multi-paragraph-text": "a body text atom holding several paragraphs separated by \\r, as PowerPoint writes a bullet list (twin: one text atom per paragraph)",
    "soft-line-break": "a vertical tab (\\x0b, soft line break) between two words of a body text (twin: a space)",
    "placeholder-like-line": "a body paragraph starting with the words 'Click to edit' (twin: 'Now click to edit')",
    "cp1252-summary": "SummaryInformation strings in code page 1252 with non-ASCII characters (twin: code page 65001)",
}
XLS_FEATURES = {
    "duplicate-header": "two header cells with the same text (twin: distinct header texts)",
    "two-empty-headers": "two empty header cells above data columns (twin: one empty header cell)",
    "numeric-header": "a number in the header row (twin: text header)",
    "header-only-sheet": "a sheet with a single row (twin: two rows)",
    "leading-empty-row": "data starts in the second sheet row (twin: first row)",
    "empty-row-inside": "a row without any cell record between the header row and the last row (twin: the row holds one text cell)",
    "empty-sheet": "a sheet without any cell between other sheets (twin: a one-column sheet)",
    "picture-spanning-continue-records": "an embedded picture larger than one BIFF record (8224 bytes): MSODRAWINGGROUP + CONTINUE records (twin: a small picture in one record)",
    "cp1252-summary": "SummaryInformation strings in code page 1252 with non-ASCII characters (twin: code page 65001)",
    "date-system-1904": "DATEMODE 1: serial dates count from 1904-01-01 (Excel for Mac's long-time default) and every sheet has date cells (twin: the 1900 system)",
}
DOC_FEATURES = {
    "chapter-prefixed-paragraph": "a paragraph whose first word is 'Chapter' followed by body paragraphs (twin: first word 'Section')",
    "chapter-prefixed-empty-section": "two consecutive paragraphs starting with 'Chapter' (twin: 'Section')",
    "non-latin-leading-text": "the document starts with one token followed by Cyrillic words (twin: Latin words)",
    "short-document": "the whole document is one short paragraph (< 21 characters) (twin: a 70-character paragraph)",
    "mixed-encoding-pieces": "piece table with an 8-bit piece followed by a 16-bit piece (twin: one 16-bit piece)",
    "picture-in-data-stream": "inline PNG picture stored in the Data stream, where Word puts it (twin: stored in the WordDocument stream, where LibreOffice puts it)",
    "jpeg-picture": "inline JPEG picture (twin: PNG picture)",
    "headings-only-with-picture": "the main text is one 'Chapter ...' line and a picture, nothing else (a title page) (twin: first word 'Section')",
    "cp1252-summary": "SummaryInformation strings in code page 1252 with non-ASCII characters (twin: code page 65001)",
}


def _summary(tk: Tokens, exp: Expect, rng: random.Random, feature, twin, claimed: tuple[str, ...], extra=None) -> bytes:
    """SummaryInformation stream; all five strings are written, ``claimed`` are the ones the format's metadata
    class has a field for (Appendix B).  Every metadata token is ``ignore`` for the text oracles."""
    payloads = ["", "", " é", " 東京", " 😀"]
    vals = {}
    for k in ("title", "subject", "author", "keywords", "description"):
        t = exp.ignore(tk.new("t"))
        # (some ordinary cp1252 strings are, byte for byte, also well-formed UTF-8: É® = C9 AE, É™ = C9 99, Ã© = C3 A9)
        vals[k] = t + (rng.choice([" café €", " café €", " NESCAFÉ® 2024", " CAFÉ™", " SÃ©rie Ã"]) if feature == "cp1252-summary" else rng.choice(payloads))
    exp.meta = {k: vals[k] for k in claimed}
    cp = 1252 if (feature == "cp1252-summary" and not twin) else 65001
    meta = {"title": vals["title"], "subject": vals["subject"], "author": vals["author"], "keywords": vals["keywords"],
            "comments": vals["description"], "last_saved_by": "verif", "creating_application": "verif ole writer"}
    return cfb.summary_information(meta, cp, extra=extra)


def _begin(fmt: str, seed: int, feature, twin):
    rng = random.Random(f"{fmt}:{seed}")
    tk = Tokens()
    exp = Expect(fmt)
    if feature:
        exp.features.add(feature if not twin else feature + "#twin")
    return rng, tk, exp, (feature if not twin else None)


# ============================================================================================== PPT

def _rec(ver: int, inst: int, rtype: int, payload: bytes) -> bytes:
    return struct.pack("<HHI", (ver & 0xF) | (inst << 4), rtype, len(payload)) + payload


def _cont(rtype: int, children, inst: int = 0) -> bytes:
    return _rec(0xF, inst, rtype, b"".join(children))


RT_DOCUMENT, RT_DOCUMENT_ATOM, RT_END_DOCUMENT = 0x03E8, 0x03E9, 0x03EA
RT_SLIDE, RT_SLIDE_ATOM, RT_NOTES, RT_NOTES_ATOM, RT_MAIN_MASTER = 0x03EE, 0x03EF, 0x03F0, 0x03F1, 0x03F8
RT_SLIDE_PERSIST, RT_SLWT, RT_PPDRAWING, RT_PLACEHOLDER = 0x03F3, 0x0FF0, 0x040C, 0x0BC3
RT_OUTLINE_REF, RT_TEXT_HEADER, RT_TEXT_CHARS, RT_TEXT_BYTES, RT_TEXT_SPEC = 0x0F9E, 0x0F9F, 0x0FA0, 0x0FA8, 0x0FAA
RT_USER_EDIT, RT_CURRENT_USER, RT_PERSIST_DIR = 0x0FF5, 0x0FF6, 0x1772
TX_TITLE, TX_BODY, TX_NOTES, TX_OTHER, TX_CENTER_BODY, TX_CENTER_TITLE, TX_HALF_BODY, TX_QUARTER_BODY = 0, 1, 2, 4, 5, 6, 7, 8


def _text_atoms(rng: random.Random, ttype: int, text: str) -> bytes:
    out = _rec(0, 0, RT_TEXT_HEADER, struct.pack("<I", ttype))
    if all(ord(c) < 0x100 for c in text) and rng.random() < 0.5:
        out += _rec(0, 0, RT_TEXT_BYTES, text.encode("latin-1"))
    else:
        out += _rec(0, 0, RT_TEXT_CHARS, text.encode("utf-16-le"))
    if rng.random() < 0.3:      # TextSpecialInfoAtom: one run covering the text, no properties
        out += _rec(0, 0, RT_TEXT_SPEC, struct.pack("<II", len(text) + 1, 0))
    return out


def _shape(spid: int, inner: bytes, stype: int = 1, pib: int | None = None) -> bytes:
    fsp = _rec(2, stype, 0xF00A, struct.pack("<II", spid, 0x0A00))
    props = [(0x007F, 0x00040004)] + ([(0x4104, pib)] if pib else [])       # pib: 1-based index into the BStore
    fopt = _rec(3, len(props), 0xF00B, b"".join(struct.pack("<HI", k, v) for k, v in props))
    anchor = _rec(0, 0, 0xF010, struct.pack("<HHHH", 100, 100, 2000, 1000))
    return _cont(0xF004, [fsp, fopt, anchor, inner])


def _drawing(dg_id: int, shapes: list[bytes]) -> bytes:
    fdg = _rec(0, dg_id, 0xF008, struct.pack("<II", len(shapes) + 2, dg_id * 1024 + len(shapes) + 1))
    group = _cont(0xF004, [_rec(1, 0, 0xF009, b"\0" * 16), _rec(2, 0, 0xF00A, struct.pack("<II", dg_id * 1024, 0x0005))])
    background = _cont(0xF004, [_rec(2, 1, 0xF00A, struct.pack("<II", dg_id * 1024 + 1, 0x0C00)),
                                _rec(3, 1, 0xF00B, struct.pack("<HI", 0x0181, 0x08000004))])
    return _cont(RT_PPDRAWING, [_cont(0xF002, [fdg, _cont(0xF003, [group] + shapes), background])])


def _blip(codec: str, w: int, h: int, seed: int) -> dict:
    """OfficeArtBlip record (PNG / JPEG / DIB) for an image file; ``sha`` is that of the file a reader should return."""
    data = IMG.make(codec, w, h, seed)
    uid = hashlib.md5(data).digest()
    if codec == "png":
        rec, bt = _rec(0, 0x6E0, 0xF01E, uid + b"\xff" + data), 6
    elif codec == "jpeg":
        rec, bt = _rec(0, 0x46A, 0xF01D, uid + b"\xff" + data), 5
    else:       # a BMP file is stored as its DIB (the file without the 14-byte BITMAPFILEHEADER)
        rec, bt = _rec(0, 0x7A8, 0xF01F, uid + b"\xff" + data[14:]), 7
    return {"rec": rec, "bt": bt, "uid": uid, "data": data, "sha": hashlib.sha1(data).hexdigest(), "ctype": IMG.CODECS[codec][1], "w": w, "h": h}


def _fbse(b: dict, fo_delay: int, inline: bool = False) -> bytes:
    body = struct.pack("<BB16sHIIIBBBB", b["bt"], b["bt"], b["uid"], 0xFF, len(b["rec"]), 1, fo_delay, 0, 0, 0, 0)
    return _rec(2, b["bt"], 0xF007, body + (b["rec"] if inline else b""))


def _dgg(n_drawings: int, bses: list[bytes]) -> bytes:
    """OfficeArtDggContainer: FDGG block (+ one IDCL per drawing) and the BStore."""
    fdgg = _rec(0, 0, 0xF006, struct.pack("<IIII", (n_drawings + 1) * 1024, n_drawings + 1, n_drawings * 3, n_drawings)
                + b"".join(struct.pack("<II", i + 1, 3) for i in range(n_drawings)))
    kids = [fdgg] + ([_cont(0xF001, bses, inst=len(bses))] if bses else [])
    return _cont(0xF000, kids)


def _placeholder_shape(spid: int, ph_type: int, textbox: bytes) -> bytes:
    client = _cont(0xF011, [_rec(0, 0, RT_PLACEHOLDER, struct.pack("<iBBH", 0, ph_type, 0, 0))])
    return _shape(spid, client + _cont(0xF00D, [textbox]))


def build_ppt(seed: int, feature: str | None = None, twin: bool = False):
    rng, tk, exp, risky = _begin("ppt", seed, feature, twin)
    exp.unit_mode = "exact"
    exp.join_equality = False
    n_slides = rng.randint(1, 6)
    if feature == "slide-without-text":
        n_slides = max(3, n_slides)
    if feature == "two-pictures-on-one-slide":
        n_slides = max(2, n_slides)
    fslide = rng.randrange(1, n_slides - 1) if feature == "slide-without-text" else rng.randrange(n_slides)
    seps = [" ", " ", " ", "\t", " é ", " – ", " 😀 "]

    def words(cls, unit, lo=1, hi=3, heading=False, sep=None):
        toks = [exp.text(tk.new(cls), unit, heading) for _ in range(rng.randint(lo, hi))]
        out = toks[0]
        for t in toks[1:]:
            out += (sep or rng.choice(seps)) + t
        return out

    slides = []     # {"blocks": [(type, text)], "boxes": [text], "notes": text|None}
    for s in range(n_slides):
        rng = random.Random(f"ppt:{seed}:slide{s}")       # per slide, so that the other slides of a risky case and of its twin are identical
        blocks, boxes = [], []

        def add_body(ttype, text):      # documented order is title, body, other: bodies go before the first 'other' block
            at = next((i for i, (t, _) in enumerate(blocks) if t == TX_OTHER), len(blocks))
            blocks.insert(at, (ttype, text))

        textless = (feature == "slide-without-text" and s == fslide) or feature == "textless-slides-with-notes"
        if textless:
            if twin:
                blocks.append((TX_TITLE, words("h", s, 1, 2, heading=True)))
        else:
            center = s == 0 and rng.random() < 0.5
            shape = rng.random()
            has_title = shape < 0.85
            has_body = shape > 0.15 or not has_title
            if has_title:
                blocks.append((TX_CENTER_TITLE if center else TX_TITLE, words("h", s, 1, 3, heading=True)))
            if has_body:
                # one paragraph per text atom: several paragraphs in one atom are the risky feature "multi-paragraph-text"
                for b in range(rng.choice([1, 1, 2, 3])):
                    ttype = TX_CENTER_BODY if center else (TX_BODY if b == 0 else rng.choice([TX_BODY, TX_HALF_BODY, TX_QUARTER_BODY]))
                    blocks.append((ttype, words(rng.choice("bbl"), s, 1, 4)))
        if s == fslide:     # feature bodies come before any 'other' block (tokens are created in document order)
            if feature == "placeholder-like-line":
                add_body(TX_BODY, ("Now click to edit " if twin else "Click to edit ") + exp.text(tk.new("b"), s))
            elif feature == "multi-paragraph-text":
                paras = [words("l", s, 1, 3) for _ in range(rng.randint(2, 4))]
                if twin:
                    for p_ in paras:
                        add_body(TX_BODY, p_)
                else:
                    add_body(TX_BODY, "\r".join(paras))
            elif feature == "soft-line-break":
                add_body(TX_BODY, words("b", s, 2, 3, sep=" " if twin else "\x0b"))
        if not textless and any(t in (TX_TITLE, TX_CENTER_TITLE) for t, _ in blocks) and random.Random(f"ppt:{seed}:second-title{s}").random() < 0.15:
            # a second title-typed text on the slide (title + centre title, a text box whose text type was set to title): it is slide
            # text like any other, after the bodies
            blocks.append((random.Random(f"ppt:{seed}:second-title-type{s}").choice([TX_TITLE, TX_CENTER_TITLE]), words("x", s, 1, 3)))
        if not textless and rng.random() < 0.15:
            blocks.append((TX_OTHER, words("x", s, 1, 3)))
        if s == fslide and feature == "textbox-in-slide-drawing":
            txt = words("x", s, 1, 3)
            if twin:
                blocks.append((TX_OTHER, txt))
            else:
                boxes.append(txt)
        notes = None
        if (rng.random() < 0.4 and feature != "text-in-slide-drawings") or feature == "textless-slides-with-notes":
            notes = " ".join(exp.out(tk.new("n")) for _ in range(rng.randint(1, 4)))
        slides.append({"blocks": blocks, "boxes": boxes, "notes": notes, "pics": []})
    exp.n_units = n_slides
    exp.images_claimed = True
    in_drawings = risky == "text-in-slide-drawings"      # LibreOffice layout: SlideListWithText holds only the persist atoms
    prng = random.Random(f"ppt:{seed}:pictures")
    placement = []
    if risky == "picture-per-slide":
        placement = list(range(prng.randint(1, min(3, n_slides))))
    elif risky == "two-pictures-on-one-slide":
        placement = [fslide, fslide]
    blips = []
    for i, s in enumerate(placement):
        # (the last picture of a deck is always a DIB blip, so that every deck with pictures exercises the DIB -> BMP re-wrapping)
        codec = "bmp" if i == len(placement) - 1 else prng.choice(["png", "jpeg", "bmp"])
        b = _blip(codec, prng.randint(2, 40), prng.randint(2, 40), prng.randrange(1 << 16))
        blips.append(b)
        slides[s]["pics"].append(len(blips))
        exp.images.append({"sha": b["sha"], "ctype": b["ctype"], "w": b["w"], "h": b["h"], "unit": s + 1})

    # ---- persist objects: 1 Document, 2 MainMaster, 3.. slides, then notes
    master_pid = 2
    slide_pid = {s: 3 + s for s in range(n_slides)}
    notes_of = [s for s in range(n_slides) if slides[s]["notes"] is not None]
    notes_pid = {s: 3 + n_slides + i for i, s in enumerate(notes_of)}
    slide_id = {s: 256 + s for s in range(n_slides)}
    notes_id = {s: 1024 + s for s in notes_of}

    def persist_atom(pid, ident, n_texts):
        return _rec(0, 0, RT_SLIDE_PERSIST, struct.pack("<IIiII", pid, 0x4 if n_texts == 0 else 0, n_texts, ident, 0))

    slwt_slides = []
    for s in range(n_slides):
        slwt_slides.append(persist_atom(slide_pid[s], slide_id[s], len(slides[s]["blocks"])))
        for ttype, text in slides[s]["blocks"]:
            if not in_drawings:
                slwt_slides.append(_text_atoms(rng, ttype, text))
    pictures, bses = b"", []
    for b in blips:
        bses.append(_fbse(b, len(pictures)))
        pictures += b["rec"]
    doc_children = [
        _rec(1, 0, RT_DOCUMENT_ATOM, struct.pack("<iiiiiiIIHHBBBB", 5760, 4320, 4320, 5760, 1, 2, 0, 0, 1, 0, 0, 0, 0, 1)),
        _cont(0x040B, [_dgg(1 + n_slides + sum(1 for x in slides if x["notes"] is not None), bses)]),       # PPDrawingGroup
        _cont(RT_SLWT, [persist_atom(master_pid, 0x80000000, 0)], inst=1),
        _cont(RT_SLWT, slwt_slides, inst=0),
    ]
    if notes_of:
        doc_children.append(_cont(RT_SLWT, [persist_atom(notes_pid[s], notes_id[s], 0) for s in notes_of], inst=2))
    doc_children.append(_rec(0, 0, RT_END_DOCUMENT, b""))
    document = _cont(RT_DOCUMENT, doc_children)

    def slide_atom(master_ref, notes_ref):
        return _rec(2, 0, RT_SLIDE_ATOM, struct.pack("<i8BIIHH", 1, 13, 14, 0, 0, 0, 0, 0, 0, master_ref, notes_ref, 0x7, 0))

    colour_scheme = _rec(0, 1, 0x07F0, struct.pack("<8I", 0xFFFFFF, 0, 0x808080, 0, 0x99CC00, 0xCC3333, 0xFFCCCC, 0xB2B2B2))
    master = _cont(RT_MAIN_MASTER, [
        slide_atom(0, 0),
        _drawing(1, [
            _placeholder_shape(1026, 1, _text_atoms(rng, TX_TITLE, "Click to edit Master title style")),
            _placeholder_shape(1027, 2, _text_atoms(rng, TX_BODY, "Click to edit Master text styles\rSecond level\rThird level\rFourth level\rFifth level")),
        ])])
    slide_recs = []
    for s in range(n_slides):
        shapes = []
        for i, (ttype, _) in enumerate(slides[s]["blocks"]):
            ph = {TX_TITLE: 13, TX_CENTER_TITLE: 15, TX_CENTER_BODY: 16, TX_OTHER: 0}.get(ttype, 14)
            ref = _text_atoms(rng, ttype, slides[s]["blocks"][i][1]) if in_drawings else _rec(0, 0, RT_OUTLINE_REF, struct.pack("<i", i))
            shapes.append(_placeholder_shape((s + 2) * 1024 + 2 + i, ph, ref))
        for i, txt in enumerate(slides[s]["boxes"]):
            shapes.append(_shape((s + 2) * 1024 + 20 + i, _cont(0xF00D, [_text_atoms(rng, TX_OTHER, txt)]), stype=202))
        for i, pib in enumerate(slides[s]["pics"]):
            shapes.append(_shape((s + 2) * 1024 + 30 + i, b"", stype=75, pib=pib))
        slide_recs.append(_cont(RT_SLIDE, [slide_atom(0x80000000, notes_id.get(s, 0)), _drawing(s + 2, shapes), colour_scheme]))
    notes_recs = []
    for s in notes_of:
        box = _shape((s + 40) * 1024 + 3, _cont(0xF011, [_rec(0, 0, RT_PLACEHOLDER, struct.pack("<iBBH", 1, 12, 0, 0))])
                     + _cont(0xF00D, [_text_atoms(rng, TX_NOTES, slides[s]["notes"])]))
        notes_recs.append(_cont(RT_NOTES, [_rec(1, 0, RT_NOTES_ATOM, struct.pack("<IHH", slide_id[s], 0x7, 0)), _drawing(s + 40, [box])]))

    objects = [(master_pid, master)] + [(slide_pid[s], slide_recs[s]) for s in range(n_slides)] + [(notes_pid[s], r) for s, r in zip(notes_of, notes_recs)]
    objects = [(1, document)] + objects if rng.random() < 0.6 else objects + [(1, document)]
    stream = bytearray()
    offset_of = {}
    for pid, blob in objects:
        offset_of[pid] = len(stream)
        stream += blob
    n_persist = len(objects)
    persist_dir_off = len(stream)
    stream += _rec(0, 0, RT_PERSIST_DIR, struct.pack("<I", (n_persist << 20) | 1) + b"".join(struct.pack("<I", offset_of[p]) for p in range(1, n_persist + 1)))
    user_edit_off = len(stream)
    stream += _rec(0, 0, RT_USER_EDIT, struct.pack("<IHBBIIIIHH", slide_id[n_slides - 1], 0, 0, 3, 0, persist_dir_off, 1, n_persist + 1, 1, 0))
    user = "verif"
    current_user = _rec(0, 0, RT_CURRENT_USER, struct.pack("<IIIHHBBH", 0x14, 0xE391C05F, user_edit_off, len(user), 0x03F4, 3, 0, 0)
                        + user.encode("ascii") + struct.pack("<I", 8) + user.encode("utf-16-le"))
    docsum = cfb.property_set({7: n_slides, 8: len(notes_of), 9: 0, 15: "verif company"}, 65001, cfb.FMTID_DOCSUMMARY)
    streams = {
        "PowerPoint Document": bytes(stream),
        "Current User": current_user,
        "\x05SummaryInformation": _summary(tk, exp, random.Random(f"meta:{seed}"), feature, twin, ("title", "author", "subject", "keywords", "description")),
        "\x05DocumentSummaryInformation": docsum,
    }
    if pictures:
        streams["Pictures"] = pictures
    return cfb.make_cfb(streams, root_clsid=bytes.fromhex("108d81649b4fcf1186ea00aa00b929e8")), exp


def walk_ppt(stream: bytes) -> dict:
    """Independent strict record-tree walker (self test): every container's children fill it exactly."""
    found = {"slwt": {}, "slides": 0, "notes": [], "types": [], "boxes": {}}

    def walk(off, end, path):
        while off < end:
            assert off + 8 <= end, "truncated record header"
            vi, rtype, rlen = struct.unpack_from("<HHI", stream, off)
            body, nxt = off + 8, off + 8 + rlen
            assert nxt <= end, f"record {rtype:#x} at {off} overruns its parent"
            found["types"].append(rtype)
            if vi & 0xF == 0xF:
                if rtype == RT_SLWT:
                    found["slwt"].setdefault(vi >> 4, []).append((body, nxt))
                if rtype == RT_SLIDE:
                    found["slides"] += 1
                walk(body, nxt, path + [rtype])
            elif rtype in (RT_TEXT_CHARS, RT_TEXT_BYTES) and RT_NOTES in path:
                found["notes"].append(stream[body:nxt].decode("utf-16-le" if rtype == RT_TEXT_CHARS else "latin-1"))
            elif rtype in (RT_TEXT_CHARS, RT_TEXT_BYTES) and RT_SLIDE in path:
                found["boxes"].setdefault(found["slides"] - 1, []).append(stream[body:nxt].decode("utf-16-le" if rtype == RT_TEXT_CHARS else "latin-1"))
            off = nxt
        assert off == end

    walk(0, len(stream), [])
    per_slide: list[list[tuple[int, str]]] = []
    for body, end in found["slwt"].get(0, []):
        off, ttype = body, None
        while off < end:
            vi, rtype, rlen = struct.unpack_from("<HHI", stream, off)
            data = stream[off + 8:off + 8 + rlen]
            if rtype == RT_SLIDE_PERSIST:
                per_slide.append([])
            elif rtype == RT_TEXT_HEADER:
                ttype, = struct.unpack("<I", data)
            elif rtype in (RT_TEXT_CHARS, RT_TEXT_BYTES):
                per_slide[-1].append((ttype, data.decode("utf-16-le" if rtype == RT_TEXT_CHARS else "latin-1")))
            off += 8 + rlen
    found["per_slide"] = per_slide
    return found


# ============================================================================================== XLS

def _biff(rid: int, data: bytes = b"") -> bytes:
    assert len(data) <= 8224, "BIFF record too long"
    return struct.pack("<HH", rid, len(data)) + data


def _xl_str(s: str, lenfmt: str = "<H") -> bytes:
    """BIFF8 XLUnicodeString: cch, flags (bit 0 = 16-bit characters), characters."""
    if all(ord(c) < 0x100 for c in s):
        return struct.pack(lenfmt, len(s)) + b"\0" + s.encode("latin-1")
    raw = s.encode("utf-16-le")
    return struct.pack(lenfmt, len(raw) // 2) + b"\x01" + raw


def _rk(v) -> int | None:
    """RK encoding of a number (30-bit integer, 30-bit integer / 100, or a double whose low 34 bits are zero), else None."""
    if isinstance(v, bool):
        return None
    if isinstance(v, int) and -(1 << 29) <= v < (1 << 29):
        return ((v << 2) | 2) & 0xFFFFFFFF
    f = float(v)
    h = round(f * 100)
    if abs(f) < 5e6 and h / 100.0 == f:
        return ((h << 2) | 3) & 0xFFFFFFFF
    raw, = struct.unpack("<Q", struct.pack("<d", f))
    if raw & 0x3FFFFFFFF == 0:
        return (raw >> 32) & 0xFFFFFFFC
    return None


XF_GENERAL, XF_DATE = 15, 16
_EPOCH = _dt.date(1899, 12, 30)


def build_xls(seed: int, feature: str | None = None, twin: bool = False):
    rng, tk, exp, risky = _begin("xls", seed, feature, twin)
    exp.unit_mode = "exact"
    exp.join_equality = False
    exp.tables_claimed = True
    n_sheets = rng.randint(1, 4)
    if feature == "empty-sheet":
        n_sheets = max(3, n_sheets)
    fsheet = rng.randrange(1, n_sheets - 1) if feature == "empty-sheet" else rng.randrange(n_sheets)
    # the workbook's date system: a risky-feature knob and, rarely, on clean workbooks too
    datemode = 1 if (feature == "date-system-1904" and not twin) or (feature is None and random.Random(f"xls:{seed}:datemode").random() < 0.2) else 0
    epoch = _dt.date(1904, 1, 1) if datemode else _EPOCH
    sst: list[str] = []
    sst_refs = 0

    def shared(s: str) -> int:
        nonlocal sst_refs
        sst_refs += 1
        if s in sst and rng.random() < 0.5:
            return sst.index(s)
        sst.append(s)
        return len(sst) - 1

    # pictures: BStore with inline blips in the globals' MSODRAWINGGROUP, one picture shape (MSODRAWING + OBJ) on a sheet
    exp.images_claimed = True
    prng = random.Random(f"xls:{seed}:pictures")
    blips: list[dict] = []
    pics_on: dict[int, list[int]] = {}
    if feature == "picture-spanning-continue-records":
        side = prng.randint(56, 80) if not twin else prng.randint(4, 24)     # 24-bit DIB: > 8224 bytes from 53 x 53 on
        plan = [("bmp", side, side + 1)]
    else:
        plan = [(prng.choice(["png", "jpeg", "bmp"]), prng.randint(2, 40), prng.randint(2, 40)) for _ in range(prng.choice([0, 0, 0, 1, 1, 2]))]
    for codec, w_, h_ in plan:
        b = _blip(codec, w_, h_, prng.randrange(1 << 16))
        blips.append(b)
        pics_on.setdefault(prng.randrange(n_sheets), []).append(len(blips))
        exp.images.append({"sha": b["sha"], "ctype": b["ctype"], "w": b["w"], "h": b["h"], "unit": None})   # workbook-level in this API

    sheet_bodies: list[bytes] = []
    names: list[str] = []
    for s in range(n_sheets):
        rng = random.Random(f"xls:{seed}:sheet{s}")      # per sheet, so that the other sheets of a risky case and of its twin are identical
        names.append(exp.ignore(tk.new("s")))
        is_f = feature is not None and s == fsheet
        rows, cols = rng.randint(2, 7), rng.randint(1, 6)
        if is_f and feature in ("duplicate-header", "two-empty-headers"):
            cols = max(3, cols)
        if is_f and feature in ("leading-empty-row", "numeric-header"):
            cols = max(2, cols)
        if is_f and feature == "empty-row-inside":
            rows = max(4, rows)
        if is_f and feature == "header-only-sheet":
            rows = 1 if not twin else 2
        if is_f and feature == "empty-sheet":
            rows, cols = (0, 0) if not twin else (2, 1)
        row_off = 1 if (is_f and risky == "leading-empty-row") else 0
        fcols = rng.sample(range(cols), 2) if cols >= 2 else [0, 0]
        grid: list[list[dict]] = []
        recs: list[list[tuple]] = []       # per row: (col, kind, payload)
        for i in range(rows):
            grow, rrow = [], []
            if is_f and feature == "empty-row-inside" and i == 2:
                # no record at all for this row (the ROW record stays: it describes the row, it is not a cell)
                if twin:
                    t = exp.text(tk.new("c"), s)
                    rrow.append((0, "sst", shared(t)))
                    grow = [{"toks": [t]}] + [{"empty": True}] * (cols - 1)
                else:
                    grow = [{"empty": True}] * cols
                grid.append(grow)
                recs.append(rrow)
                continue
            for j in range(cols):
                if i == 0:                  # header row: distinct non-empty text (the extractor keys rows by it)
                    if is_f and feature == "duplicate-header" and j in fcols:
                        word = "total" if not twin else ("total" if j == fcols[0] else "other")
                        rrow.append((j, "sst", shared(word)))
                        grow.append({"v": word})
                        continue
                    if is_f and feature == "two-empty-headers" and (j in fcols if not twin else j == fcols[0]):
                        if rng.random() < 0.5:
                            rrow.append((j, "blank", None))
                        grow.append({"empty": True})
                        continue
                    if is_f and feature == "numeric-header" and j == fcols[0] and not twin:
                        v = rng.choice([rng.randint(1900, 2100), 0.5, 12.25])
                        rrow.append((j, "num", v))
                        grow.append({"v": v})
                        continue
                    t = exp.text(tk.new("c"), s)
                    rrow.append((j, "sst", shared(t)))
                    grow.append({"toks": [t]})
                    continue
                k = rng.random()
                guard = (j == cols - 1 and i in (1, rows - 1)) or j == 0 or (is_f and feature in ("duplicate-header", "two-empty-headers") and j in fcols)
                if feature == "date-system-1904" and not guard and k < 0.6:
                    serial = rng.randint(30000, 46000)
                    rrow.append((j, "date", serial))
                    grow.append({"v": (epoch + _dt.timedelta(days=serial)).isoformat()})
                elif k < 0.12 and not guard:
                    if rng.random() < 0.4:
                        rrow.append((j, "blank", None))
                    grow.append({"empty": True})
                elif k < 0.5 or guard:
                    toks = [exp.text(tk.new("c"), s) for _ in range(1 if rng.random() < 0.8 else 2)]
                    txt = rng.choice([" ", " é ", " – "]).join(toks) if len(toks) > 1 else toks[0]
                    if rng.random() < 0.12:
                        rrow.append((j, "label", txt))
                    else:
                        rrow.append((j, "sst", shared(txt)))
                    grow.append({"toks": toks})
                elif k < 0.65:
                    v = rng.choice([rng.randint(-10**6, 10**6), rng.randint(-99, 99), rng.randint(10**9, 10**12)])
                    rrow.append((j, "num", v))
                    grow.append({"v": v})
                elif k < 0.75:
                    v = rng.choice([0.5, 1.25, -3.75, 1234.5, 1e-3, 2.5e10, 0.1, -7.03125])
                    rrow.append((j, "num", v))
                    grow.append({"v": v})
                elif k < 0.83:
                    v = rng.random() < 0.5
                    rrow.append((j, "bool", v))
                    grow.append({"v": v})
                elif k < 0.91:
                    serial = rng.randint(36526, 46000)          # whole-day dates (from 2000-01-01 in the 1900 date system)
                    rrow.append((j, "date", serial))
                    grow.append({"v": (epoch + _dt.timedelta(days=serial)).isoformat()})
                else:
                    v = rng.choice([rng.randint(1, 500), 2.75])
                    rrow.append((j, "formula", v))
                    grow.append({"v": v})
            grid.append(grow)
            recs.append(rrow)
        if row_off:
            grid = [[{"empty": True}] * cols] + grid
        exp.tables.append({"grid": grid, "unit": s + 1})

        body = [_biff(0x0809, struct.pack("<HHHHII", 0x0600, 0x0010, 0x0DBB, 0x07CC, 0x000000C1, 0x00000306))]
        body.append(_biff(0x0200, struct.pack("<IIHHH", row_off if rows else 0, rows + row_off, 0, cols, 0)))
        for i in range(rows):
            body.append(_biff(0x0208, struct.pack("<HHHHHHI", i + row_off, 0, cols, 0x00FF, 0, 0, 0x00000100)))
        for i in range(rows):
            r = i + row_off
            row = recs[i]
            idx = 0
            while idx < len(row):
                j, kind, p = row[idx]
                if kind == "sst":
                    body.append(_biff(0x00FD, struct.pack("<HHHI", r, j, XF_GENERAL, p)))
                elif kind == "label":
                    body.append(_biff(0x0204, struct.pack("<HHH", r, j, XF_GENERAL) + _xl_str(p)))
                elif kind == "blank":
                    body.append(_biff(0x0201, struct.pack("<HHH", r, j, XF_GENERAL)))
                elif kind == "bool":
                    body.append(_biff(0x0205, struct.pack("<HHHBB", r, j, XF_GENERAL, int(p), 0)))
                elif kind == "date":
                    body.append(_biff(0x0203, struct.pack("<HHHd", r, j, XF_DATE, float(p))))
                elif kind == "formula":
                    ptg = struct.pack("<BH", 0x1E, p) if isinstance(p, int) else struct.pack("<Bd", 0x1F, p)
                    body.append(_biff(0x0006, struct.pack("<HHHdHI", r, j, XF_GENERAL, float(p), 0, 0) + struct.pack("<H", len(ptg)) + ptg))
                elif kind == "num":
                    rk = _rk(p) if rng.random() < 0.7 else None
                    if rk is None:
                        body.append(_biff(0x0203, struct.pack("<HHHd", r, j, XF_GENERAL, float(p))))
                    else:
                        run = [rk]          # MULRK for a run of adjacent RK-encodable numbers
                        while (idx + len(run) < len(row) and row[idx + len(run)][1] == "num" and row[idx + len(run)][0] == j + len(run)
                               and _rk(row[idx + len(run)][2]) is not None and rng.random() < 0.5):
                            run.append(_rk(row[idx + len(run)][2]))
                        if len(run) == 1:
                            body.append(_biff(0x027E, struct.pack("<HHHI", r, j, XF_GENERAL, rk)))
                        else:
                            body.append(_biff(0x00BD, struct.pack("<HH", r, j) + b"".join(struct.pack("<HI", XF_GENERAL, x) for x in run)
                                              + struct.pack("<H", j + len(run) - 1)))
                            idx += len(run) - 1
                idx += 1
        if pics_on.get(s):
            dg = s + 1
            group = _cont(0xF004, [_rec(1, 0, 0xF009, b"\0" * 16), _rec(2, 0, 0xF00A, struct.pack("<II", dg * 1024, 0x0005))])
            shapes = []
            for i, pib in enumerate(pics_on[s]):
                fsp = _rec(2, 75, 0xF00A, struct.pack("<II", dg * 1024 + 1 + i, 0x0A00))
                fopt = _rec(3, 1, 0xF00B, struct.pack("<HI", 0x4104, pib))
                anchor = _rec(0, 0, 0xF010, struct.pack("<9H", 2, cols + 1, 0, 1 + 3 * i, 0, cols + 3, 0, 3 + 3 * i, 0))
                shapes.append(_cont(0xF004, [fsp, fopt, anchor, _rec(0, 0, 0xF011, b"")]))
            spgr_len = len(group) + sum(len(x) for x in shapes)
            fdg = _rec(0, dg, 0xF008, struct.pack("<II", len(shapes) + 1, dg * 1024 + len(shapes)))
            first = (struct.pack("<HHI", 0xF, 0xF002, len(fdg) + 8 + spgr_len) + fdg + struct.pack("<HHI", 0xF, 0xF003, spgr_len) + group)
            for i, shp in enumerate(shapes):    # every shape is followed by its OBJ record (ftCmo picture, ftEnd)
                body.append(_biff(0x00EC, (first if i == 0 else b"") + shp))
                body.append(_biff(0x005D, struct.pack("<HHHHH", 0x15, 0x12, 8, i + 1, 0x6011) + b"\0" * 12 + b"\0" * 4))
        body.append(_biff(0x023E, struct.pack("<HHHIHHI", 0x06B6 if s == 0 else 0x00B6, 0, 0, 64, 0, 0, 0)))
        body.append(_biff(0x000A))
        sheet_bodies.append(b"".join(body))
    exp.n_units = n_sheets

    # ---- globals
    def font(name="Arial"):
        return _biff(0x0031, struct.pack("<HHHHHBBBB", 200, 0, 0x7FFF, 400, 0, 0, 0, 0, 0) + _xl_str(name, "<B"))

    def xf(fmt: int, style: bool):
        return _biff(0x00E0, struct.pack("<HHHBBBBIIH", 0, fmt, 0xFFF5 if style else 0x0001, 0x20, 0, 0, 0 if style else (0x04 if fmt else 0), 0, 0, 0x20C0))

    g = [_biff(0x0809, struct.pack("<HHHHII", 0x0600, 0x0005, 0x0DBB, 0x07CC, 0x000000C1, 0x00000306)),
         _biff(0x00E1, struct.pack("<H", 0x04B0)),                       # INTERFACEHDR
         _biff(0x0042, struct.pack("<H", 1200)),                         # CODEPAGE utf-16
         _biff(0x003D, struct.pack("<HHHHHHHHH", 0, 0, 0x4000, 0x2000, 0x0038, 0, 0, 1, 600)),   # WINDOW1
         _biff(0x0022, struct.pack("<H", datemode))]                     # DATEMODE (0 = 1900, 1 = 1904 date system)
    g += [font() for _ in range(4)]
    g.append(_biff(0x041E, struct.pack("<H", 164) + _xl_str("0.000")))   # a custom FORMAT
    g += [xf(0, True) for _ in range(15)] + [xf(0, False), xf(14, False)]
    g.append(_biff(0x0293, struct.pack("<HBB", 0x8000, 0, 0xFF)))        # STYLE Normal
    sst_recs = []
    cur = struct.pack("<II", sst_refs, len(sst))
    rid = 0x00FC
    for s_ in sst:
        enc = _xl_str(s_)
        if len(cur) + len(enc) > 8224:
            sst_recs.append(_biff(rid, cur))
            rid, cur = 0x003C, b""        # CONTINUE, split between strings
        cur += enc
    sst_recs.append(_biff(rid, cur))
    mso = b""
    if blips:
        dgg = _dgg(len(pics_on), [_fbse(b, 0, inline=True) for b in blips])
        mso = b"".join(_biff(0x00EB if i == 0 else 0x003C, dgg[i:i + 8224]) for i in range(0, len(dgg), 8224))
    tail = mso + b"".join(sst_recs) + _biff(0x000A)
    head = b"".join(g)
    bs_len = sum(4 + 6 + len(_xl_str(n, "<B")) for n in names)
    pos = len(head) + bs_len + len(tail)
    bound = []
    for n, body in zip(names, sheet_bodies):
        bound.append(_biff(0x0085, struct.pack("<IBB", pos, 0, 0) + _xl_str(n, "<B")))
        pos += len(body)
    workbook = head + b"".join(bound) + tail + b"".join(sheet_bodies)
    if len(workbook) < 4096:
        workbook += b"\0" * (4096 - len(workbook))      # Excel pads short Workbook streams so that they never live in the mini stream
    docsum = cfb.property_set({15: "verif company"}, 65001, cfb.FMTID_DOCSUMMARY)
    streams = {
        "Workbook": workbook,
        "\x05SummaryInformation": _summary(tk, exp, random.Random(f"meta:{seed}"), feature, twin, ("title", "author", "subject")),
        "\x05DocumentSummaryInformation": docsum,
    }
    return cfb.make_cfb(streams, root_clsid=bytes.fromhex("2008020000000000c000000000000046")), exp


# ============================================================================================== DOC

FIB_LEN = 0x384
FC_CLX_OFF = 0x9A + 8 * 33
CYRILLIC = "абвгдежзиклмнопрстуфхцчшщэюя"


def build_doc(seed: int, feature: str | None = None, twin: bool = False):
    rng, tk, exp, risky = _begin("doc", seed, feature, twin)
    exp.unit_mode = "one-or-sections"
    exp.join_equality = False
    exp.n_units = 1

    def words(cls, lo=1, hi=4, heading=False, rec=None):
        rec = rec or (lambda t: exp.text(t, 0, heading))
        toks = [rec(tk.new(cls)) for _ in range(rng.randint(lo, hi))]
        out = toks[0]
        for t in toks[1:]:
            out += rng.choice([" ", " ", " ", "\t", "\x0b", " \xa0"]) + t
        return out

    main: list[str] = []      # paragraphs incl. their terminating marks
    ftn: list[str] = []
    atn: list[str] = []
    wide_payload = False      # some character outside cp1252 present -> 16-bit text is mandatory

    def para(cls="b", heading=False):
        nonlocal wide_payload
        txt = words(cls, 1, 4, heading)
        k = rng.random()
        if k < 0.08:
            txt += " \x13 HYPERLINK \"https://example.org/\" \x14" + words("k", 1, 2, rec=exp.ignore) + "\x15"
        elif k < 0.16:
            txt += "\x02"                                   # footnote reference; text in the footnote sub-document
            ftn.append("\x02 " + words("n", 1, 3, rec=exp.ignore) + "\r")
        elif k < 0.24:
            txt += "\x05"                                   # annotation reference
            atn.append("\x05" + words("m", 1, 3, rec=exp.out) + "\r")
        elif k < 0.30:
            txt += " é ü " + words(cls, 1, 1, heading)
        elif k < 0.34 and feature != "mixed-encoding-pieces":
            wide_payload = True
            txt += " 東京 " + words(cls, 1, 1, heading)
        return txt + "\r"

    if feature == "headings-only-with-picture":
        # (that heading lines are not part of the full text is the chapter-prefixed-paragraph mechanism; here the line is unclaimed
        # text, what is judged is that the accessors work and that the document has a unit)
        main.append(("Section " if twin else "Chapter ") + " ".join(exp.ignore(tk.new("h")) for _ in range(8)) + "\r")
    elif feature == "short-document":
        t = exp.text(tk.new("b"), 0)
        main.append(t + "\r" if not twin else t + " " + " ".join(exp.text(tk.new("b"), 0) for _ in range(7)) + "\r")
    else:
        if feature == "non-latin-leading-text":
            frng = random.Random(f"doc:{seed}:feature")
            t = exp.text(tk.new("b"), 0)
            filler = " ".join("".join(frng.choice(CYRILLIC if not twin else "abcdefghiklmnoprstu") for _ in range(frng.randint(4, 9))) for _ in range(14))
            wide_payload = True     # both variants are written as 16-bit text
            main.append(t + " " + filler + "\r")
        first = " ".join(exp.text(tk.new("b"), 0) for _ in range(rng.randint(8, 10)))   # >= 64 ASCII characters up front
        main.append(first + "\r")
        for _ in range(rng.randint(1, 8)):
            k = rng.random()
            if k < 0.15:
                main.append(para("h", heading=True))
                main.append(para())
            elif k < 0.6:
                main.append(para())
            elif k < 0.72:
                for _ in range(rng.randint(2, 4)):
                    main.append(para("l"))
            elif k < 0.84:                      # table: every cell ends with the cell mark, every row with one more
                for _ in range(rng.randint(1, 3)):
                    main.append("".join(words("c", 1, 2) + "\x07" for _ in range(rng.randint(1, 4))) + "\x07")
                main.append(para())
            elif k < 0.92:
                main.append("\x0c")              # page break
                main.append(para())
            else:
                main.append("\r")                # empty paragraph
                main.append(para())
        if feature == "chapter-prefixed-paragraph":
            w = "Chapter" if not twin else "Section"
            main.append(w + " " + words("h", 1, 3, heading=True) + "\r")
            main.append(para())
        elif feature == "mixed-encoding-pieces":
            # the last paragraph holds characters outside cp1252: Word keeps the text before it in an 8-bit piece
            main.append(words("b", 2, 3) + " 東京 Ωμέγα " + words("b", 3, 4) + "\r")
        elif feature == "chapter-prefixed-empty-section":
            w = "Chapter" if not twin else "Section"
            main.append(w + " " + words("h", 1, 2, heading=True) + "\r")
            main.append(w + " " + words("h", 1, 2, heading=True) + "\r")
            main.append(para())
    hdd = []
    if feature not in ("short-document", "headings-only-with-picture") and rng.random() < 0.5:
        hdd = [words("f", 1, 2, rec=exp.out) + "\r" for _ in range(rng.randint(1, 3))]
    txbx = []
    if feature not in ("short-document", "headings-only-with-picture") and rng.random() < 0.25:
        txbx = [words("x", 1, 2, rec=exp.ignore) + "\r"]

    # pictures: a picture character (\x01) in its own paragraph; the picture data (PICF + inline shape + BSE + blip) is kept where
    # LibreOffice's writer puts it (in the WordDocument stream, behind the text) or where Word puts it (the Data stream)
    exp.images_claimed = True
    prng = random.Random(f"doc:{seed}:pictures")
    if feature == "short-document":
        plan = []
    elif feature == "picture-in-data-stream":
        plan = ["png"]
    elif feature == "jpeg-picture":
        plan = ["jpeg" if not twin else "png"]
    elif feature == "headings-only-with-picture":
        plan = ["png"]
    else:
        plan = ["png"] * prng.choice([0, 0, 1, 1, 2])
    pic_blobs: list[bytes] = []
    for i, codec in enumerate(plan):
        b = _blip(codec, prng.randint(2, 20) + 20 * i, prng.randint(2, 40), prng.randrange(1 << 16))      # distinct widths
        shape = _cont(0xF004, [_rec(2, 75, 0xF00A, struct.pack("<II", 1025 + i, 0x0A00)), _rec(3, 1, 0xF00B, struct.pack("<HI", 0x4104, 1))])
        art = shape + _fbse(b, 0, inline=True)
        picf = struct.pack("<iHhhhh", 68 + len(art), 0x44, 0x64, b["w"] * 15, b["h"] * 15, 0) + b"\0" * 14
        picf += struct.pack("<hhHH", b["w"] * 15, b["h"] * 15, 1000, 1000) + b"\0" * 8 + b"\0\0" + b"\0" * 16 + b"\0" * 4 + struct.pack("<h", 0)
        assert len(picf) == 68
        pic_blobs.append(picf + art)
        main.insert(prng.randrange(1, len(main)) if len(main) > 1 else 1, "\x01\r")
        exp.images.append({"sha": b["sha"], "ctype": b["ctype"], "w": b["w"], "h": b["h"], "unit": None})
    pics_in_data = risky == "picture-in-data-stream"

    t_main, t_ftn, t_hdd, t_atn, t_txbx = ("".join(x) for x in (main, ftn, hdd, atn, txbx))
    subdocs = t_ftn + t_hdd + t_atn + t_txbx
    if subdocs:
        subdocs += "\r"                          # the additional final paragraph mark of a document with sub-documents
    full = t_main + subdocs
    fc_min = rng.choice([0x400, 0x600, 0x800]) if feature != "short-document" else 0x400
    can_narrow = not wide_payload
    try:
        full.encode("cp1252")
    except UnicodeEncodeError:
        can_narrow = False
    pieces: list[tuple[int, int, bool]] = []     # (cp start, byte offset, compressed)
    if feature == "mixed-encoding-pieces":
        # first piece: everything before the last main paragraph in 8 bits; second piece: the rest in 16 bits
        cut = len("".join(main[:-1]))
        if twin:
            text_bytes = full.encode("utf-16-le")
            pieces = [(0, fc_min, False)]
        else:
            a = full[:cut].encode("cp1252")
            a += b"\0" * (len(a) % 2)
            text_bytes = a + full[cut:].encode("utf-16-le")
            pieces = [(0, fc_min, True), (cut, fc_min + len(a), False)]
    elif can_narrow and rng.random() < 0.5:
        text_bytes = full.encode("cp1252")
        pieces = [(0, fc_min, True)]
    else:
        text_bytes = full.encode("utf-16-le")
        pieces = [(0, fc_min, False)]
    fc_mac = fc_min + len(text_bytes)
    word = bytearray(fc_min) + text_bytes
    data_stream = b""
    for blob in pic_blobs:
        if pics_in_data:
            data_stream += blob + b"\0" * (-len(blob) % 4)
        else:
            word += b"\0" * (-len(word) % 4) + blob
    word += b"\0" * (-len(word) % 512)
    word += b"\0" * 512                          # room where Word keeps its CHPX/PAPX FKP pages

    # 1Table: a style-sheet stub, then the Clx (Pcdt with the piece table)
    n_cp = len(full)
    plc = b"".join(struct.pack("<I", cp) for cp, _, _ in pieces) + struct.pack("<I", n_cp)
    for _, off, comp in pieces:
        plc += struct.pack("<HIH", 0x0040, (off * 2) | 0x40000000 if comp else off, 0)
    clx = b"\x02" + struct.pack("<I", len(plc)) + plc
    stsh = b"\0" * 64
    table = stsh + clx
    table += b"\0" * (-len(table) % 64)

    fib = bytearray(FIB_LEN)
    flags = 0x0200 | 0x1000 | (0x0004 if len(pieces) > 1 else 0)      # fWhichTblStm (1Table), fExtChar, fComplex
    struct.pack_into("<HHHHHH", fib, 0, 0xA5EC, 0x00C1, 0x6027, 0x0409, 0, flags)
    struct.pack_into("<H", fib, 0x0C, 0x00BF)
    struct.pack_into("<II", fib, 0x18, fc_min, fc_mac)
    struct.pack_into("<H", fib, 0x20, 0x000E)
    struct.pack_into("<H", fib, 0x3C, 0x0409)
    struct.pack_into("<H", fib, 0x3E, 0x0016)
    struct.pack_into("<I", fib, 0x40, len(word))
    struct.pack_into("<I", fib, 0x4C, len(t_main))
    struct.pack_into("<I", fib, 0x50, len(t_ftn))
    struct.pack_into("<I", fib, 0x54, len(t_hdd))
    struct.pack_into("<I", fib, 0x5C, len(t_atn))
    struct.pack_into("<I", fib, 0x64, len(t_txbx))
    struct.pack_into("<H", fib, 0x98, 0x005D)
    struct.pack_into("<II", fib, 0x9A + 8 * 1, 0, len(stsh))          # fcStshf / lcbStshf
    struct.pack_into("<II", fib, FC_CLX_OFF, len(stsh), len(clx))
    word[:FIB_LEN] = fib
    streams = {
        "WordDocument": bytes(word),
        "1Table": table,
        "\x05SummaryInformation": _summary(tk, exp, random.Random(f"meta:{seed}"), feature, twin, ("title", "author", "subject", "keywords"),
                                           extra={cfb.PID["num_pages"]: 1, cfb.PID["num_words"]: len(full.split()), cfb.PID["num_chars"]: len(full)}),
        "\x05DocumentSummaryInformation": cfb.property_set({15: "verif company"}, 65001, cfb.FMTID_DOCSUMMARY),
        "\x01CompObj": b"\x01\x00\xfe\xff\x03\x0a\x00\x00\xff\xff\xff\xff" + bytes.fromhex("0609020000000000c000000000000046")
                       + struct.pack("<I", 24) + b"Microsoft Word-Dokument\0" + struct.pack("<I", 10) + b"MSWordDoc\0" + struct.pack("<I", 16) + b"Word.Document.8\0"
                       + struct.pack("<I", 0x71B239F4) + b"\0" * 12,
    }
    if data_stream:
        streams["Data"] = data_stream
    return cfb.make_cfb(streams, root_clsid=bytes.fromhex("0609020000000000c000000000000046")), exp


def read_doc_text(word: bytes, table: bytes) -> dict:
    """Independent reader (self test): FIB -> Clx -> piece table -> characters of every sub-document."""
    assert struct.unpack_from("<H", word, 0)[0] == 0xA5EC
    fc_clx, lcb_clx = struct.unpack_from("<II", word, FC_CLX_OFF)
    clx = table[fc_clx:fc_clx + lcb_clx]
    assert clx[0] == 2
    lcb, = struct.unpack_from("<I", clx, 1)
    plc = clx[5:5 + lcb]
    n = (len(plc) - 4) // 12
    cps = struct.unpack_from(f"<{n + 1}I", plc, 0)
    text = ""
    for i in range(n):
        _, fc, _ = struct.unpack_from("<HIH", plc, 4 * (n + 1) + 8 * i)
        cnt = cps[i + 1] - cps[i]
        if fc & 0x40000000:
            off = (fc & 0x3FFFFFFF) // 2
            text += word[off:off + cnt].decode("cp1252")
        else:
            text += word[fc:fc + 2 * cnt].decode("utf-16-le")
    ccp = {k: struct.unpack_from("<I", word, o)[0] for k, o in (("text", 0x4C), ("ftn", 0x50), ("hdd", 0x54), ("atn", 0x5C), ("txbx", 0x64))}
    out, pos = {}, 0
    for k in ("text", "ftn", "hdd", "atn", "txbx"):
        out[k] = text[pos:pos + ccp[k]]
        pos += ccp[k]
    out["rest"] = text[pos:]
    return out


# ========================================================================================== registry

BUILDERS = {
    "ppt": (build_ppt, PPT_FEATURES, "ppt", ".ppt"),
    "xls": (build_xls, XLS_FEATURES, "xls", ".xls"),
    "doc": (build_doc, DOC_FEATURES, "doc", ".doc"),
}


# ========================================================================================= self test

def _xls_blip_shas(wb: bytes) -> list[str]:
    """Reassemble MSODRAWINGGROUP + CONTINUE, walk Dgg -> BStore -> FBSE -> inline blip (self test)."""
    off, mso, last = 0, b"", None
    while off + 4 <= len(wb):
        rid, ln = struct.unpack_from("<HH", wb, off)
        if rid == 0x00EB or (rid == 0x003C and last == 0x00EB):
            mso += wb[off + 4:off + 4 + ln]
        if rid != 0x003C:
            last = rid
        off += 4 + ln
    out = []
    if mso:
        vi, rt, ln = struct.unpack_from("<HHI", mso, 0)
        assert rt == 0xF000 and ln + 8 == len(mso)
        off = 8
        while off < len(mso):
            vi, rt, ln = struct.unpack_from("<HHI", mso, off)
            if rt == 0xF001:
                p, end = off + 8, off + 8 + ln
                while p < end:
                    _, rt2, ln2 = struct.unpack_from("<HHI", mso, p)
                    assert rt2 == 0xF007
                    out += _blip_shas(mso, p + 8 + 36, p + 8 + ln2)
                    p += 8 + ln2
            off += 8 + ln
    return out



def _blip_shas(data: bytes, start: int = 0, end: int | None = None) -> list[str]:
    """SHA-1 of the image file held by every OfficeArtBlip record of a flat record sequence (self test)."""
    out, off = [], start
    end = len(data) if end is None else end
    while off + 8 <= end:
        vi, rt, ln = struct.unpack_from("<HHI", data, off)
        if 0xF01A <= rt <= 0xF029:
            img = data[off + 8 + 17:off + 8 + ln]
            if rt == 0xF01F:
                img = b"BM" + struct.pack("<IHHI", 14 + len(img), 0, 0, 54) + img
            out.append(hashlib.sha1(img).hexdigest())
        off += 8 + ln
    return out



def self_test(n: int = 40) -> dict:
    """Validate the writers without the extractors under test: olefile lists/reads every stream, xlrd returns the
    typed grid, the PPT record tree parses strictly and holds the recorded tokens per slide, the DOC text is
    found through FIB -> Clx."""
    import io

    import olefile
    import xlrd

    from . import tokens as T

    stats = {"ppt": 0, "xls": 0, "doc": 0}
    for fmt, (builder, feats, _, _) in BUILDERS.items():
        variants = [(None, False)] + [(f, tw) for f in feats for tw in (False, True)]
        for seed in range(n):
            for feature, twin in variants:
                data, exp = builder(seed, feature, twin)
                data2, _ = builder(seed, feature, twin)
                assert data == data2, f"{fmt}: builder is not deterministic"
                with olefile.OleFileIO(io.BytesIO(data), raise_defects=olefile.DEFECT_POTENTIAL) as ole:
                    got = {"/".join(p): ole.openstream(p).read() for p in ole.listdir()}
                    meta = ole.get_metadata()
                assert got == cfb.read_cfb(data), f"{fmt}: olefile and the independent CFB reader disagree"
                props = cfb.parse_property_set(got["\x05SummaryInformation"])
                for k, v in exp.meta.items():
                    assert props[cfb.PID[k]] == v, (fmt, seed, feature, k)
                assert isinstance(meta.title, bytes) and meta.create_time.year == 2024
                by_unit: dict[int, list[str]] = {}
                for t in exp.seq:
                    by_unit.setdefault(exp.unit_of[t], []).append(t)
                if fmt == "ppt":
                    w = walk_ppt(got["PowerPoint Document"])
                    assert len(w["per_slide"]) == exp.n_units == w["slides"], (seed, feature)
                    in_slwt = [[t for _, txt in blocks for t in T.find(txt)] for blocks in w["per_slide"]]
                    assert bool(w["boxes"]) == (feature in ("textbox-in-slide-drawing", "text-in-slide-drawings") and not twin)
                    assert _blip_shas(got.get("Pictures", b"")) == [i["sha"] for i in exp.images], (seed, feature)
                    for s in range(exp.n_units):
                        boxed = [t for txt in w["boxes"].get(s, []) for t in T.find(txt)]
                        assert in_slwt[s] + boxed == by_unit.get(s, []), (seed, feature, twin, s)
                    assert sorted(t for txt in w["notes"] for t in T.find(txt)) == sorted(exp.outs), (seed, feature)
                    cu = got["Current User"]
                    off, = struct.unpack_from("<I", cu, 16)
                    ppt = got["PowerPoint Document"]
                    assert struct.unpack_from("<H", ppt, off + 2)[0] == RT_USER_EDIT
                    pd_off, = struct.unpack_from("<I", ppt, off + 8 + 12)
                    vi, rt, ln = struct.unpack_from("<HHI", ppt, pd_off)
                    assert rt == RT_PERSIST_DIR
                    offs = struct.unpack_from(f"<{(ln - 4) // 4}I", ppt, pd_off + 12)
                    kinds = sorted(struct.unpack_from("<H", ppt, o + 2)[0] for o in offs)
                    assert kinds.count(RT_DOCUMENT) == 1 and kinds.count(RT_SLIDE) == exp.n_units and kinds.count(RT_MAIN_MASTER) == 1
                elif fmt == "xls":
                    book = xlrd.open_workbook(file_contents=data, logfile=io.StringIO())
                    assert book.nsheets == exp.n_units == len(exp.tables)
                    assert book.codepage == 1200 and book.biff_version == 80
                    assert _xls_blip_shas(got["Workbook"]) == [i["sha"] for i in exp.images], (seed, feature, twin)
                    for sh, want in zip(book.sheets(), exp.tables):
                        grid = want["grid"]
                        assert T.find(sh.name) and sh.name in exp.ignored
                        assert (sh.nrows, sh.ncols) == (len(grid), max((len(r) for r in grid), default=0)), (seed, feature, twin, sh.nrows, sh.ncols)
                        for i, row in enumerate(grid):
                            for j, wc in enumerate(row):
                                c = sh.cell(i, j)
                                if "toks" in wc:
                                    assert c.ctype == xlrd.XL_CELL_TEXT and T.find(c.value) == wc["toks"], (seed, feature, i, j, c)
                                elif "empty" in wc:
                                    assert c.ctype in (xlrd.XL_CELL_EMPTY, xlrd.XL_CELL_BLANK), (seed, feature, i, j, c)
                                elif isinstance(wc["v"], bool):
                                    assert c.ctype == xlrd.XL_CELL_BOOLEAN and bool(c.value) == wc["v"]
                                elif isinstance(wc["v"], str) and c.ctype == xlrd.XL_CELL_DATE:
                                    assert _dt.date(*xlrd.xldate_as_tuple(c.value, book.datemode)[:3]).isoformat() == wc["v"]
                                elif isinstance(wc["v"], str):
                                    assert c.ctype == xlrd.XL_CELL_TEXT and c.value == wc["v"]
                                else:
                                    assert c.ctype == xlrd.XL_CELL_NUMBER and c.value == float(wc["v"]), (seed, feature, i, j, c, wc)
                else:
                    d = read_doc_text(got["WordDocument"], got["1Table"])
                    assert T.find(d["text"]) == [t for t in T.find(d["text"]) if t in exp.seq or t in exp.ignored]
                    assert [t for t in T.find(d["text"]) if t in exp.unit_of] == exp.seq, (seed, feature, twin)
                    assert sorted(T.find(d["hdd"]) + T.find(d["atn"])) == sorted(exp.outs), (seed, feature)
                    assert d["text"].endswith(("\r", "\x07")) and (d["rest"] in ("", "\r"))
                    fc_min, fc_mac = struct.unpack_from("<II", got["WordDocument"], 0x18)
                    assert d["text"].count("\x01") == len(exp.images)
                    where, p = (got["Data"], 0) if "Data" in got else (got["WordDocument"], fc_mac)
                    shas = []
                    while len(shas) < len(exp.images):
                        p += -p % 4
                        lcb, cb_header = struct.unpack_from("<iH", where, p)
                        assert cb_header == 0x44
                        _, rt, ln = struct.unpack_from("<HHI", where, p + 68)
                        assert rt == 0xF004
                        bse = p + 68 + 8 + ln
                        _, rt, ln2 = struct.unpack_from("<HHI", where, bse)
                        assert rt == 0xF007 and bse + 8 + ln2 == p + lcb
                        shas += _blip_shas(where, bse + 8 + 36, bse + 8 + ln2)
                        p += lcb
                    assert shas == [i["sha"] for i in exp.images], (seed, feature, twin)
                    assert fc_min in (0x400, 0x600, 0x800) and fc_mac <= len(got["WordDocument"])
                stats[fmt] += 1
    return stats


if __name__ == "__main__":
    print(self_test())
