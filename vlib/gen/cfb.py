"""Compound File Binary (OLE2, [MS-CFB]) version-3 writer and OLE property-set ([MS-OLEPS]) writer.

Hand-written so that the readers under test (olefile, xlrd's own compound-document parser) never grade
their own writer.  ``python -m vlib.gen.cfb`` runs the self tests of this module and of ``vlib.gen.ole``.

Layout produced by :func:`make_cfb` (sector numbers after the 512-byte header):

    FAT sectors | directory sectors | mini-FAT sectors | mini-stream container | big streams ...

* 512-byte sectors (sector shift 9), 64-byte mini sectors (mini shift 6), mini-stream cutoff 4096: a
  stream shorter than 4096 bytes lives in the mini stream, longer ones in regular sector chains.
* The FAT is addressed through the 109 DIFAT slots of the header only (<= 109 FAT sectors, i.e. files
  up to ~7 MiB) -- asserted, never silently exceeded.
* Directory: entry 0 is the root storage; the children of every storage form a balanced binary search
  tree ordered by (UTF-16 length, upper-cased name) as [MS-CFB] 2.6.4 requires; the nodes of an
  incomplete deepest level are red, every other node is black, which makes it a valid red-black tree.
  ``tree="chain"`` writes the degenerate all-black right-sibling chain instead (also accepted by olefile).
"""
from __future__ import annotations

import struct

SIGNATURE = bytes.fromhex("D0CF11E0A1B11AE1")
SECTOR = 512
MINI = 64
CUTOFF = 4096
FREESECT, ENDOFCHAIN, FATSECT, DIFSECT, NOSTREAM = 0xFFFFFFFF, 0xFFFFFFFE, 0xFFFFFFFD, 0xFFFFFFFC, 0xFFFFFFFF
T_STORAGE, T_STREAM, T_ROOT = 1, 2, 5
RED, BLACK = 0, 1


class _Node:
    __slots__ = ("name", "kind", "data", "kids", "clsid", "sid", "left", "right", "child", "colour", "start", "size")

    def __init__(self, name, kind, data=b"", clsid=b"\0" * 16):
        self.name, self.kind, self.data, self.clsid = name, kind, data, clsid
        self.kids: dict[str, _Node] = {}
        self.sid = -1
        self.left = self.right = self.child = NOSTREAM
        self.colour = BLACK
        self.start, self.size = ENDOFCHAIN, 0


def _sort_key(name: str):
    return (len(name.encode("utf-16-le")), name.upper())


def _pad(b: bytes, n: int) -> bytes:
    return b + b"\0" * (-len(b) % n)


def make_cfb(streams: dict[str, bytes], storages=None, root_clsid: bytes = b"\0" * 16, tree: str = "balanced") -> bytes:
    """streams: path -> bytes ("Workbook", "ObjectPool/_1/Ole": intermediate storages are created);
    storages: optional iterable of storage paths (may be empty storages) or dict path -> 16-byte CLSID."""
    root = _Node("Root Entry", T_ROOT, clsid=root_clsid)

    def storage(path: str, clsid=None) -> _Node:
        cur = root
        for part in [p for p in path.split("/") if p]:
            nxt = cur.kids.get(part.upper())
            if nxt is None:
                nxt = cur.kids[part.upper()] = _Node(part, T_STORAGE)
            assert nxt.kind == T_STORAGE, f"{part!r} is a stream, not a storage"
            cur = nxt
        if clsid is not None:
            cur.clsid = clsid
        return cur

    if storages:
        for p in storages:
            storage(p, storages[p] if isinstance(storages, dict) else None)
    for path, data in streams.items():
        parts = [p for p in path.split("/") if p]
        parent = storage("/".join(parts[:-1]))
        name = parts[-1]
        assert 0 < len(name.encode("utf-16-le")) <= 62, f"stream name too long: {name!r}"
        assert name.upper() not in parent.kids, f"duplicate name {path!r}"
        parent.kids[name.upper()] = _Node(name, T_STREAM, bytes(data))

    # ---- directory ids (root 0, then depth first) and sibling trees
    order: list[_Node] = []

    def number(node: _Node):
        node.sid = len(order)
        order.append(node)
        for k in sorted(node.kids.values(), key=lambda n: _sort_key(n.name)):
            number(k)

    number(root)

    def link(node: _Node):
        kids = sorted(node.kids.values(), key=lambda n: _sort_key(n.name))
        if not kids:
            return
        if tree == "chain":
            node.child = kids[0].sid
            for a, b in zip(kids, kids[1:]):
                a.right = b.sid
        else:
            depth_of: dict[int, int] = {}

            def build(lo, hi, depth):
                if lo >= hi:
                    return NOSTREAM
                mid = (lo + hi) // 2
                n = kids[mid]
                depth_of[n.sid] = depth
                n.left = build(lo, mid, depth + 1)
                n.right = build(mid + 1, hi, depth + 1)
                return n.sid

            node.child = build(0, len(kids), 0)
            deepest = max(depth_of.values())
            if len(kids) != (1 << (deepest + 1)) - 1:       # deepest level incomplete -> its nodes are red
                for n in kids:
                    if depth_of[n.sid] == deepest and deepest > 0:
                        n.colour = RED
        for k in kids:
            link(k)

    link(root)

    # ---- mini stream
    mini_fat: list[int] = []
    mini_blob = bytearray()
    big: list[_Node] = []
    for n in order:
        if n.kind != T_STREAM:
            continue
        n.size = len(n.data)
        if n.size == 0:
            n.start = ENDOFCHAIN
        elif n.size < CUTOFF:
            first = len(mini_fat)
            cnt = (n.size + MINI - 1) // MINI
            for i in range(cnt):
                mini_fat.append(first + i + 1 if i < cnt - 1 else ENDOFCHAIN)
            n.start = first
            mini_blob += _pad(n.data, MINI)
        else:
            big.append(n)
    mini_container = _pad(bytes(mini_blob), SECTOR)
    mini_fat_bytes = _pad(b"".join(struct.pack("<I", x) for x in mini_fat), SECTOR) if mini_fat else b""
    if mini_fat_bytes:   # unused mini-FAT slots are FREESECT
        used = len(mini_fat) * 4
        mini_fat_bytes = mini_fat_bytes[:used] + b"\xff" * (len(mini_fat_bytes) - used)

    n_dir = (len(order) * 128 + SECTOR - 1) // SECTOR
    n_minifat = len(mini_fat_bytes) // SECTOR
    n_mini = len(mini_container) // SECTOR
    n_big = [(len(n.data) + SECTOR - 1) // SECTOR for n in big]
    n_data = n_dir + n_minifat + n_mini + sum(n_big)
    n_fat = 1
    while n_fat * (SECTOR // 4) < n_data + n_fat:
        n_fat += 1
    assert n_fat <= 109, "compound file too large for the header DIFAT (writer limit: 109 FAT sectors)"

    fat = [FREESECT] * (n_fat * (SECTOR // 4))
    pos = 0
    for i in range(n_fat):
        fat[pos + i] = FATSECT
    pos += n_fat

    def chain(count: int) -> int:
        nonlocal pos
        if count == 0:
            return ENDOFCHAIN
        first = pos
        for i in range(count):
            fat[pos + i] = pos + i + 1 if i < count - 1 else ENDOFCHAIN
        pos += count
        return first

    dir_start = chain(n_dir)
    minifat_start = chain(n_minifat)
    root.start = chain(n_mini)
    root.size = len(mini_blob)
    for n, cnt in zip(big, n_big):
        n.start = chain(cnt)

    # ---- directory
    dir_bytes = bytearray()
    for n in order:
        name16 = n.name.encode("utf-16-le") + b"\0\0"
        ent = name16.ljust(64, b"\0") + struct.pack("<HBBIII", len(name16), n.kind, n.colour, n.left, n.right, n.child)
        ent += n.clsid + struct.pack("<IQQ", 0, 0, 0) + struct.pack("<IQ", n.start, n.size)
        assert len(ent) == 128
        dir_bytes += ent
    while len(dir_bytes) % SECTOR:      # unused entries: type 0, siblings/child NOSTREAM
        dir_bytes += b"\0" * 68 + struct.pack("<III", NOSTREAM, NOSTREAM, NOSTREAM) + b"\0" * 48

    header = SIGNATURE + b"\0" * 16 + struct.pack("<HHHHH", 0x003E, 3, 0xFFFE, 9, 6) + b"\0" * 6
    header += struct.pack("<IIIIIIIII", 0, n_fat, dir_start, 0, CUTOFF,
                          minifat_start if n_minifat else ENDOFCHAIN, n_minifat, ENDOFCHAIN, 0)
    difat = list(range(n_fat)) + [FREESECT] * (109 - n_fat)
    header += b"".join(struct.pack("<I", x) for x in difat)
    assert len(header) == 512
    out = bytearray(header)
    out += b"".join(struct.pack("<I", x) for x in fat)
    out += dir_bytes
    out += mini_fat_bytes
    out += mini_container
    for n in big:
        out += _pad(n.data, SECTOR)
    assert len(out) == 512 + pos * SECTOR, (len(out), pos)
    return bytes(out)


# ====================================================================================== property sets

FMTID_SUMMARY = bytes.fromhex("E0859FF2F94F6810AB9108002B27B3D9")       # F29F85E0-4FF9-1068-AB91-08002B27B3D9
FMTID_DOCSUMMARY = bytes.fromhex("02D5CDD59C2E1B10939708002B2CF9AE")    # D5CDD502-2E9C-101B-9397-08002B2CF9AE
VT_I2, VT_I4, VT_LPSTR, VT_LPWSTR, VT_FILETIME = 2, 3, 0x1E, 0x1F, 0x40
PID = {"title": 2, "subject": 3, "author": 4, "keywords": 5, "comments": 6, "description": 6, "template": 7,
       "last_saved_by": 8, "revision_number": 9, "create_time": 12, "last_saved_time": 13, "num_pages": 14,
       "num_words": 15, "num_chars": 16, "creating_application": 18}
_CODEC = {65001: "utf-8", 1252: "cp1252", 1200: "utf-16-le"}


def filetime(year, month, day, hour=0, minute=0, second=0) -> int:
    import datetime as dt
    delta = dt.datetime(year, month, day, hour, minute, second) - dt.datetime(1601, 1, 1)
    return (delta.days * 86400 + delta.seconds) * 10_000_000


def property_set(props: dict[int, object], codepage: int | None = 65001, fmtid: bytes = FMTID_SUMMARY, wide: bool = False) -> bytes:
    """One-section property-set stream.  props: PID -> str (VT_LPSTR in ``codepage``; VT_LPWSTR when wide),
    int (VT_I4) or ("filetime", int).  ``codepage`` None omits PID 1."""
    items: list[tuple[int, bytes]] = []
    if codepage is not None:
        items.append((1, struct.pack("<IH", VT_I2, codepage & 0xFFFF) + b"\0\0"))
    for pid in sorted(props):
        v = props[pid]
        if isinstance(v, str):
            if wide:
                raw = v.encode("utf-16-le") + b"\0\0"
                body = struct.pack("<II", VT_LPWSTR, len(raw) // 2) + raw
            else:
                raw = v.encode(_CODEC[codepage or 1252]) + b"\0"
                body = struct.pack("<II", VT_LPSTR, len(raw)) + raw
        elif isinstance(v, tuple) and v[0] == "filetime":
            body = struct.pack("<IQ", VT_FILETIME, v[1])
        elif isinstance(v, bool):
            raise TypeError("bool property not supported")
        elif isinstance(v, int):
            body = struct.pack("<Ii", VT_I4, v)
        else:
            raise TypeError(type(v))
        items.append((pid, _pad(body, 4)))
    table_len = 8 + 8 * len(items)
    offs, blob = [], b""
    for pid, body in items:
        offs.append((pid, table_len + len(blob)))
        blob += body
    section = struct.pack("<II", table_len + len(blob), len(items)) + b"".join(struct.pack("<II", p, o) for p, o in offs) + blob
    head = struct.pack("<HHI", 0xFFFE, 0, 0x00020105) + b"\0" * 16 + struct.pack("<I", 1) + fmtid + struct.pack("<I", 48)
    assert len(head) == 48
    return head + section


def summary_information(meta: dict[str, str], codepage: int = 65001, wide: bool = False, extra: dict[int, object] | None = None) -> bytes:
    """``meta`` keys: title, subject, author, keywords, comments/description, last_saved_by, ... (see PID)."""
    props: dict[int, object] = {PID[k]: v for k, v in meta.items()}
    props.setdefault(PID["create_time"], ("filetime", filetime(2024, 1, 2, 3, 4, 5)))
    props.setdefault(PID["last_saved_time"], ("filetime", filetime(2024, 2, 3, 4, 5, 6)))
    if extra:
        props.update(extra)
    return property_set(props, codepage, FMTID_SUMMARY, wide)


def parse_property_set(data: bytes) -> dict[int, object]:
    """Independent reader used by the self tests (not olefile): PID -> value (str decoded by PID 1)."""
    assert data[:2] == b"\xfe\xff"
    n_sets, = struct.unpack_from("<I", data, 24)
    assert n_sets >= 1
    off, = struct.unpack_from("<I", data, 28 + 16)
    size, n = struct.unpack_from("<II", data, off)
    raw: dict[int, tuple[int, int]] = {}
    for i in range(n):
        pid, o = struct.unpack_from("<II", data, off + 8 + 8 * i)
        raw[pid] = (struct.unpack_from("<I", data, off + o)[0], off + o + 4)
    cp = 1252
    if 1 in raw:
        cp = struct.unpack_from("<H", data, raw[1][1])[0]
    out: dict[int, object] = {}
    for pid, (vt, p) in raw.items():
        if vt == VT_I2:
            out[pid] = struct.unpack_from("<H", data, p)[0]
        elif vt == VT_I4:
            out[pid] = struct.unpack_from("<i", data, p)[0]
        elif vt == VT_LPSTR:
            ln, = struct.unpack_from("<I", data, p)
            out[pid] = data[p + 4:p + 4 + ln].rstrip(b"\0").decode(_CODEC[cp])
        elif vt == VT_LPWSTR:
            ln, = struct.unpack_from("<I", data, p)
            out[pid] = data[p + 4:p + 4 + 2 * ln].decode("utf-16-le").rstrip("\0")
        elif vt == VT_FILETIME:
            out[pid] = ("filetime", struct.unpack_from("<Q", data, p)[0])
    return out


# ========================================================================================== self tests

def read_cfb(data: bytes) -> dict[str, bytes]:
    """Minimal independent CFB reader (header DIFAT only) used to cross-check olefile in the self test."""
    assert data[:8] == SIGNATURE
    (minor, major, bom, sshift, mshift) = struct.unpack_from("<HHHHH", data, 24)
    assert (major, bom, sshift, mshift) == (3, 0xFFFE, 9, 6)
    n_fat, dir_start, _, cutoff, minifat_start, n_minifat, difat_start, n_difat = struct.unpack_from("<IIIIIIII", data, 44)
    assert cutoff == CUTOFF and n_difat == 0 and difat_start == ENDOFCHAIN
    sec = lambda i: data[512 + i * SECTOR: 512 + (i + 1) * SECTOR]
    fat: list[int] = []
    for i in range(n_fat):
        s, = struct.unpack_from("<I", data, 76 + 4 * i)
        fat += struct.unpack("<128I", sec(s))

    def read_chain(start, table, getter):
        out, seen = [], set()
        while start != ENDOFCHAIN:
            assert start not in seen and start < len(table), "bad chain"
            seen.add(start)
            out.append(getter(start))
            start = table[start]
        return b"".join(out)

    directory = read_chain(dir_start, fat, sec)
    ents = []
    for i in range(0, len(directory), 128):
        e = directory[i:i + 128]
        nlen, kind, colour, left, right, child = struct.unpack_from("<HBBIII", e, 64)
        start, size = struct.unpack_from("<IQ", e, 116)
        ents.append({"name": e[:max(nlen - 2, 0)].decode("utf-16-le"), "kind": kind, "colour": colour, "left": left,
                     "right": right, "child": child, "start": start, "size": size})
    root = ents[0]
    assert root["kind"] == T_ROOT
    mini = read_chain(root["start"], fat, sec)[:root["size"]] if root["start"] != ENDOFCHAIN else b""
    minifat = list(struct.unpack(f"<{n_minifat * 128}I", read_chain(minifat_start, fat, sec))) if n_minifat else []
    msec = lambda i: mini[i * MINI:(i + 1) * MINI]
    out: dict[str, bytes] = {}

    def walk(sid, prefix):
        if sid == NOSTREAM:
            return []
        e = ents[sid]
        names = walk(e["left"], prefix) + [_sort_key(e["name"])]
        path = prefix + e["name"]
        if e["kind"] == T_STREAM:
            if e["size"] == 0:
                out[path] = b""
            elif e["size"] < CUTOFF:
                out[path] = read_chain(e["start"], minifat, msec)[:e["size"]]
            else:
                out[path] = read_chain(e["start"], fat, sec)[:e["size"]]
        elif e["kind"] == T_STORAGE:
            inner = walk(e["child"], path + "/")
            assert inner == sorted(inner), "children not in CFB order"
        return names + walk(e["right"], prefix)

    top = walk(root["child"], "")
    assert top == sorted(top), "children not in CFB order"
    return out


def _check_red_black(data: bytes):
    """Every sibling tree is a binary search tree in CFB order with valid red-black colouring."""
    n_fat, dir_start = struct.unpack_from("<II", data, 44)
    fat: list[int] = []
    for i in range(n_fat):
        s, = struct.unpack_from("<I", data, 76 + 4 * i)
        fat += struct.unpack_from("<128I", data, 512 + s * SECTOR)
    d, s = b"", dir_start
    while s != ENDOFCHAIN:
        d += data[512 + s * SECTOR:512 + (s + 1) * SECTOR]
        s = fat[s]
    ents = [struct.unpack_from("<HBBIII", d, i + 64) + (d[i:i + 64],) for i in range(0, len(d), 128)]

    def black_height(sid, is_root):
        if sid == NOSTREAM:
            return 1
        nlen, kind, colour, left, right, child, _ = ents[sid]
        if is_root:
            assert colour == BLACK, "red root"
        if colour == RED:
            for c in (left, right):
                assert c == NOSTREAM or ents[c][2] == BLACK, "red node with red child"
        a, b = black_height(left, False), black_height(right, False)
        assert a == b, "unequal black height"
        if kind in (T_STORAGE, T_ROOT):
            black_height(child, True)
        return a + (1 if colour == BLACK else 0)

    black_height(ents[0][5], True)


def self_test(rounds: int = 120, seed: int = 0) -> dict:
    import io
    import random

    import olefile

    rng = random.Random(seed)
    n_streams = n_bytes = 0
    for r in range(rounds):
        streams: dict[str, bytes] = {}
        stream_keys, storage_keys = set(), {"EMPTY STORAGE"}
        for _ in range(rng.randint(1, 14)):
            depth = rng.choice([0, 0, 0, 1, 2])
            parts = ["".join(rng.choice("abcXYZ019_ \x05é") for _ in range(rng.randint(1, 12))) for _ in range(depth + 1)]
            parts = [p.strip() or "s" for p in parts]
            path = "/".join(parts)
            # names are case-insensitively unique per level; a name is either a stream or a storage
            keys = ["/".join(parts[:i + 1]).upper() for i in range(len(parts))]
            if keys[-1] in stream_keys or keys[-1] in storage_keys or any(k in stream_keys for k in keys[:-1]):
                continue
            stream_keys.add(keys[-1])
            storage_keys.update(keys[:-1])
            size = rng.choice([0, 1, 63, 64, 65, 511, 512, 513, 4095, 4096, 4097, rng.randint(0, 20000), rng.randint(0, 300)])
            streams[path] = rng.randbytes(size)
        if r == 0:
            streams["Huge"] = rng.randbytes(70000 * 4)       # forces several FAT sectors
        for tree in ("balanced", "chain"):
            blob = make_cfb(streams, storages=["Empty Storage"] if r % 7 == 0 else None, tree=tree)
            assert olefile.isOleFile(io.BytesIO(blob))
            with olefile.OleFileIO(io.BytesIO(blob), raise_defects=olefile.DEFECT_POTENTIAL) as ole:
                listed = {"/".join(p) for p in ole.listdir(streams=True, storages=False)}
                assert listed == set(streams), (sorted(listed), sorted(streams))
                for path, data in streams.items():
                    got = ole.openstream(path.split("/")).read()
                    assert got == data, f"round {r}: stream {path!r} differs ({len(got)} vs {len(data)})"
                    assert ole.get_size(path.split("/")) == len(data)
                if r % 7 == 0:
                    assert ole.exists("Empty Storage") and ole.get_type("Empty Storage") == olefile.STGTY_STORAGE
            mine = read_cfb(blob)
            assert mine == streams, f"round {r}: independent reader disagrees"
            if tree == "balanced":
                _check_red_black(blob)
        n_streams += len(streams)
        n_bytes += sum(len(v) for v in streams.values())

    # property sets: olefile and the independent parser agree with what was written
    cases = 0
    for cp, text in ((65001, "Grüße – 東京 😀"), (1252, "Grüße – café"), (65001, "plain")):
        for wide in (False, True):
            meta = {"title": "T " + text, "subject": "S " + text, "author": "A " + text, "keywords": "K " + text, "comments": "C " + text}
            ps = summary_information(meta, cp, wide=wide, extra={PID["num_pages"]: 7})
            blob = make_cfb({"\x05SummaryInformation": ps, "x": b"1"})
            with olefile.OleFileIO(io.BytesIO(blob), raise_defects=olefile.DEFECT_POTENTIAL) as ole:
                m = ole.get_metadata()
                for k in meta:
                    if wide:
                        break       # olefile 0.47 reads the VT_LPWSTR length from the wrong offset (its bug): only the independent parser judges these
                    v = getattr(m, k)
                    if isinstance(v, bytes):
                        v = v.decode(_CODEC[cp])
                    assert v == meta[k], (cp, wide, k, v, meta[k])
                assert (m.codepage & 0xFFFF) == cp and m.num_pages == 7
                assert m.create_time.isoformat() == "2024-01-02T03:04:05", m.create_time
            mine = parse_property_set(ps)
            for k in meta:
                assert mine[PID[k]] == meta[k]
            cases += 1
    return {"cfb_rounds": rounds, "streams": n_streams, "bytes": n_bytes, "property_sets": cases}


if __name__ == "__main__":
    import sys

    print("cfb:", self_test())
    try:
        from . import ole
    except ImportError as e:        # pragma: no cover
        print("ole self test skipped:", e)
        sys.exit(0)
    print("ole:", ole.self_test())
