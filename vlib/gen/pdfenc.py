"""Encrypt generated PDFs with pypdf's writer, its fallback crypto provider patched with the *reference* AES (vlib/gen/aes_ref.py).

Run in the parent process of a check (never in the worker that executes the repository's own AES), so that the
repository's implementation decrypts what an independent implementation encrypted.
"""
from __future__ import annotations

import io
import os

from . import aes_ref as R

_PATCHED = False


def _patch():
    global _PATCHED
    if _PATCHED:
        return
    import pypdf._crypt_providers as providers
    if providers.crypt_provider[0] != "local_crypt_fallback":
        _PATCHED = True          # a real crypto library is installed: nothing to patch
        return
    import pypdf._crypt_providers._fallback as fb
    import pypdf._encryption as enc

    def ecb_e(key, data):
        return R.ecb_encrypt(bytes(key), bytes(data))

    def ecb_d(key, data):
        return R.ecb_decrypt(bytes(key), bytes(data))

    def cbc_e(key, iv, data):
        return R.cbc_encrypt(bytes(key), bytes(iv), bytes(data))

    def cbc_d(key, iv, data):
        return R.cbc_decrypt(bytes(key), bytes(iv), bytes(data))

    def init(self, key):
        self.key = bytes(key)

    def encrypt(self, data):
        return R.RefCryptAES(self.key).encrypt(bytes(data), os.urandom(16))

    def decrypt(self, data):
        return R.RefCryptAES(self.key).decrypt(bytes(data))

    fb.CryptAES.__init__ = init
    fb.CryptAES.encrypt = encrypt
    fb.CryptAES.decrypt = decrypt
    for mod in (fb, providers, enc):
        mod.aes_ecb_encrypt, mod.aes_ecb_decrypt, mod.aes_cbc_encrypt, mod.aes_cbc_decrypt = ecb_e, ecb_d, cbc_e, cbc_d
        mod.CryptAES = fb.CryptAES
    _PATCHED = True


ALGORITHMS = ["RC4-40", "RC4-128", "AES-128", "AES-256"]


def encrypt_pdf(data: bytes, algorithm: str, user_password: str, owner_password: str = "owner-secret") -> bytes:
    _patch()
    from pypdf import PdfReader, PdfWriter
    w = PdfWriter(clone_from=PdfReader(io.BytesIO(data)))
    w.encrypt(user_password=user_password, owner_password=owner_password, algorithm=algorithm)
    out = io.BytesIO()
    w.write(out)
    return out.getvalue()
