"""Grammar of HTML bodies for C17 (removed markup is removed completely and takes nothing else with it).

A *body* is a visible skeleton (well-formed blocks: p, div, h1-h3, lists, tables, inline spans,
links, pre, blockquote) carrying unique tokens ``q<class><5 digits>z`` with removable constructs
embedded at chosen positions.  Token classes:

    b  visible text located before the first removable construct of the document
    v  visible text located after at least one removable construct
    r  text inside a removable element (script, style, noscript, iframe, object, applet; ``embed`` is
       void and has no content) or inside a comment / bogus comment / processing instruction
    u  unjudged: text whose inside/outside status is genuinely debatable (a CDATA section in body
       context: bogus comment in HTML, character data in XHTML)

"Inside" is defined by the HTML tokenisation rules where they are unambiguous: script/style are raw
text (everything up to the matching end tag is content, whatever it looks like); the other elements
contain normal markup and the generator never puts the element's own end tag inside them (not in a
comment, not in a string of a nested script), never nests iframe/noscript in themselves and never
leaves a removable element unclosed at the end of the input, so that the raw-text reading (iframe,
noscript with scripting) and the normal-markup reading agree on where the element ends.  Constructs
deliberately NOT generated because browsers / the standard library / XHTML disagree about them:
unclosed removable element at end of input, ``</script>`` inside a script string, ``</script foo>`` (end tag
with attributes: not recognised by CPython 3.12.1's html.parser in raw-text mode), ``<!-->``,
``--!>``, ``-- >``, ``<script src=x/>`` (unquoted value swallows the slash), RCDATA elements
(title/textarea), an unclosed start tag of another removable element inside object/applet (a
browser ignores ``</object>`` while an applet is open and an unclosed iframe swallows the rest).

Tags of OTHER removable elements inside a removed element are generated where every reading agrees:
a stray end tag of a different removable element (``<noscript>a </iframe> b</noscript>``: ignored by
the tree builder, text in the raw-text reading) inside noscript/iframe/object/applet, and an unclosed
start tag of a different removable element inside iframe/noscript, whose content is raw text up to
their own end tag.  An ORPHAN end tag of a removable element (no such element open: the element was closed
once too often, ``</script>`` duplicated) is ignored by every tree builder; it is generated between, before and
after removed elements, preferably with the name of the element removed last.  A document may END inside an unterminated comment / declaration / processing
instruction (a truncated mail body): HTML tokenisation makes everything up to the end of input the
comment, so its tokens are class r and nothing visible follows.

Removed content may itself spell a whole document (kinds document-write, full-document, page-skeleton:
``<html><body>..</body></html>`` as script text, iframe/object fallback, commented-out page): to every
tokeniser these tags are text of, or ignored inside, the removed construct; a carrier that locates the
document in raw bytes must not take them for the document's own.

Removed content may be LONG (kind ``long``, 1.5 - 9 KB: a mail's style sheet, a generator banner, a script
library), also as the very first thing of a fragment or in the head: whatever a reader decides from the first
kilobytes of its input (media type, charset, "is this HTML at all") must not change what is removed.

Content documents are independent: an EPUB chapter that ENDS with something still open (CHAPTER_ENDINGS: a removed
element never closed or closed by the wrong name, an unterminated comment / CDATA / PI / declaration, a cut-off tag, an
open table cell / title / pre, orphan end tags, a pending entity) may lose the rest of ITSELF, never anything of the
chapter that follows; the following chapter is a complete body of this grammar and is judged on its own.

Order and separation ("takes nothing else with it"): every construct is bracketed by the BEGIN/END
markers, ``render(strip=True)`` gives the same document with every removable construct deleted.  The
check extracts that reference document too and demands that the visible tokens of the real document
come out in the same order, in the same place (full text / table cell) and not glued where the
reference keeps them apart.  The ``ctx-*`` positions put the construct behind an already closed
inline or block child of the same parent and directly in front of character data, the place where a
tree builder has to decide to which node the following text belongs.

Feature isolation: every body is either clean or carries exactly ONE risky construct instance; the
risky construct is an ``Alt(risky, benign)`` segment, so the control twin is the same document
(same tokens, same classes) with the benign form.  Risky constructs are only placed at non-table
positions so that the symptom of a known mechanism is deterministic (inside table cells the same
mechanism additionally eats the cell's end tag, which shows up as other symptoms).
"""
from __future__ import annotations

import re

TOKEN_RE = re.compile(r"q[a-z][0-9]{5}z")

REMOVABLE = ("script", "style", "noscript", "iframe", "object", "embed", "applet")
RAWTEXT = ("script", "style")
NORMAL = ("noscript", "iframe", "object", "applet")
NAMES = REMOVABLE + ("comment",)

RISKY = (
    "void-child-in-removed-element",
    "bare-void-embed",
    "stray-endtag-in-removed-element",
    "unclosed-inner-tag-in-removed-element",
    "stray-removable-endtag-in-removed-element",
    "unclosed-removable-starttag-in-removed-element",
    "unterminated-trailing-construct",
    "orphan-removable-endtag",
)

VOID_CHILDREN = (
    '<img src="p.gif" alt="">', '<br>', '<hr>', '<input type="hidden" name="n" value="1">',
    '<param name="movie" value="m.swf">', '<source src="a.ogg" type="audio/ogg">',
    '<embed src="m.swf" type="application/x-shockwave-flash">', '<link rel="stylesheet" href="n.css">',
    '<meta http-equiv="refresh" content="0; url=n.html">', '<img src="t.gif" title="a>b" alt=\'"\'>',
    '<IMG SRC="p.gif">', '<wbr>',
)
STRAY_END = ("</b>", "</i>", "</span>", "</div>", "</p>", "</a>", "</li>", "</td>", "</em>", "</font>", "</center>", "</B>")
UNCLOSED_OPEN = ("<p>", "<li>", "<div>", "<b>", "<span>", '<a href="e.html">', '<font color="red">', "<center>", "<P>", "<em>", "<td>")

# tags of OTHER removable elements inside a removed element (the element's own name is skipped when one is drawn)
STRAY_REMOVABLE_END = ("</iframe>", "</object>", "</noscript>", "</applet>", "</script>", "</style>", "</embed>", "</IFRAME>",
                       "</Object>", "</noscript >", "</SCRIPT>", "</applet\n>")
UNCLOSED_REMOVABLE_OPEN = ('<object data="m.swf">', '<iframe src="f.html">', "<noscript>", '<applet code="A.class">', "<OBJECT>",
                           '<object data="m.swf" title="a>b">', "<Applet>", "<iframe>", '<noscript class="n">')
UNCLOSED_REMOVABLE_PARENTS = ("iframe", "noscript")      # content is raw text up to the element's own end tag
TAIL_KINDS = ("comment", "comment-tight", "comment-tags", "comment-gt", "comment-removable", "comment-conditional", "comment-multiline",
              "decl", "doctype-like", "pi")
TRUNC_KINDS = ("after-document", "closers-cut", "mid-paragraph", "mid-div")

RAW_KINDS = ("text", "pseudo-markup", "pseudo-endtag", "pseudo-removable", "comment-wrapped", "cdata-wrapped", "ltgt", "multiline", "empty", "document-write", "long")
NORMAL_KINDS = ("text", "balanced", "void-selfclosed", "nested-same", "nested-other", "nested-rawtext", "nested-embed",
                "misnested-inner", "comment", "cdata", "attr-gt", "selfclosed-nonvoid", "entities", "empty", "full-document", "long")
RISKY_KINDS = {"void-child-in-removed-element": "void-bare", "stray-endtag-in-removed-element": "stray-endtag",
               "unclosed-inner-tag-in-removed-element": "unclosed-inner",
               "stray-removable-endtag-in-removed-element": "stray-removable-endtag",
               "unclosed-removable-starttag-in-removed-element": "unclosed-removable",
               "orphan-removable-endtag": "orphan-endtag"}
_RISKY_ONLY_KINDS = ("void-bare", "stray-endtag", "unclosed-inner", "embed-bare", "stray-removable-endtag", "unclosed-removable", "orphan-endtag")
ORPHAN_NAMES = NORMAL + RAWTEXT      # an end tag of a removable element with no element open: between / after / before removed elements
EMBED_KINDS = ("embed-selfclosed", "embed-paired")
COMMENT_KINDS = ("plain", "tight", "multiline", "with-tags", "with-gt", "with-dashes", "with-removable", "conditional",
                 "empty", "with-quotes", "pi", "decl", "doctype-like", "if-plain-close", "xml-island", "endif-lookalike", "page-skeleton", "long")
LONG_SIZES = (1500, 3000, 9000)         # characters of removable content: beyond the 1 / 2 / 8 KiB a reader may look at first
ATTR_KINDS = ("none", "plain", "gt-in-value", "quotes", "unquoted", "endtag-in-value", "newline-in-tag")
CASE_KINDS = ("lower", "upper", "mixed")
CLOSE_KINDS = ("plain", "ws", "nl")

TABLE_POSITIONS = ("td-mid", "td-last", "td-only", "th", "tr-between", "ctx-td-inline")
CONTEXT_POSITIONS = ("ctx-p-inline", "ctx-p-glued", "ctx-div-block", "ctx-li-link", "ctx-body-text", "ctx-span-void", "ctx-bq-blocks")
NONTABLE_POSITIONS = ("body-level", "p-inline", "p-glued", "p-start", "p-end", "div", "div-blocks", "li", "ol-between",
                      "heading", "span", "a-link", "blockquote", "pre", "doc-start", "doc-end", "nested-divs", "head") + CONTEXT_POSITIONS
POSITIONS = NONTABLE_POSITIONS + TABLE_POSITIONS
WRAPPERS = ("full", "fragment", "body-only", "xhtml")


class Alt:
    """A segment with a risky and a benign rendering (the control twin uses the benign one)."""
    __slots__ = ("risky", "benign")

    def __init__(self, risky: str, benign: str):
        self.risky = risky
        self.benign = benign


class _Mark:
    """BEGIN / END of a removable construct in the segment list (render(strip=True) drops what is in between)."""
    __slots__ = ("name",)

    def __init__(self, name: str):
        self.name = name

    def __repr__(self):
        return self.name


BEGIN, END = _Mark("BEGIN"), _Mark("END")


def kinds_for(name: str) -> tuple:
    if name in RAWTEXT:
        return RAW_KINDS
    if name == "embed":
        return EMBED_KINDS
    if name == "comment":
        return COMMENT_KINDS
    ks = list(NORMAL_KINDS)
    if name not in ("object", "applet"):
        ks.remove("nested-same")     # iframe/noscript in themselves: raw-text and markup readings disagree
    return tuple(ks)


def risky_names(feature: str) -> tuple:
    if feature == "bare-void-embed":
        return ("embed",)
    if feature == "unclosed-removable-starttag-in-removed-element":
        return UNCLOSED_REMOVABLE_PARENTS
    if feature == "unterminated-trailing-construct":
        return ()               # not a construct at a position: the document's tail (make_body)
    if feature == "orphan-removable-endtag":
        return ()               # needs removed elements around it: own stream in systematic_risky / random_risky
    return NORMAL


class Body:
    def __init__(self):
        self.segments: list = []
        self.tokens: dict[str, str] = {}
        self.features: set[str] = set()
        self.risky: str | None = None
        self.wrapper = "fragment"
        self.constructs: list[dict] = []
        self.epub_only = False
        self.literal = None         # text that must come out literally (a fragment's bare last words with a plain '&')
        self.want_ref = False       # always compare with the reference document (else: a seeded share, see checks/c17.py)

    def render(self, benign: bool = False, strip: bool = False) -> str:
        """The document; ``benign``: control twin; ``strip``: every removable construct deleted (reference)."""
        out = []
        depth = 0
        for s in self.segments:
            if s is BEGIN:
                depth += 1
            elif s is END:
                depth -= 1
            elif strip and depth:
                continue
            elif isinstance(s, Alt):
                out.append(s.benign if benign else s.risky)
            else:
                out.append(s)
        return "".join(out)

    def recipe(self) -> dict:
        return {"wrapper": self.wrapper, "risky": self.risky, "features": sorted(self.features), "constructs": self.constructs}


class _B:
    """Builder state: token allocation in document order, feature set."""

    def __init__(self, rng, base: int):
        self.rng = rng
        self.serial = base
        self.body = Body()
        self.seen = False

    def t(self, cls: str) -> str:
        self.serial += 1
        tok = f"q{cls}{self.serial % 100000:05d}z"
        assert tok not in self.body.tokens
        self.body.tokens[tok] = cls
        return tok

    def vis(self) -> str:
        return self.t("v" if self.seen else "b")

    def r(self) -> str:
        return self.t("r")

    def u(self) -> str:
        return self.t("u")

    def f(self, *names: str) -> None:
        self.body.features.update(names)


def _cased(name: str, kind: str, end: bool = False) -> str:
    if kind == "upper":
        return name.upper()
    if kind == "mixed":
        s = "".join(c.upper() if i % 2 == 0 else c for i, c in enumerate(name))
        return s.swapcase() if end else s
    return name


def _attrs(b: _B, name: str, kind: str) -> str:
    plain = {
        "script": ' type="text/javascript"', "style": ' type="text/css"', "noscript": ' class="ns"',
        "iframe": ' src="f.html" width="1" height="1"', "object": ' data="m.swf" type="application/x-shockwave-flash"',
        "applet": ' code="A.class" width="10" height="10"', "embed": ' src="m.swf"',
    }[name]
    if kind == "none":
        return "" if name != "embed" else ' src="m.swf"'
    if kind == "plain":
        return plain
    if kind == "gt-in-value":
        return plain + {"style": ' media="screen and (min-width>300px)"'}.get(name, ' title="a>b" data-x="1 > 0"')
    if kind == "quotes":
        return plain + " title='say \"hi\"' data-q=\"it's\""
    if kind == "unquoted":
        return {"script": " type=text/javascript defer", "style": " type=text/css", "noscript": " class=ns id=n1",
                "iframe": " src=f.html width=1", "object": " data=m.swf width=2", "applet": " code=A.class width=3",
                "embed": " src=m.swf width=4"}[name]
    if kind == "endtag-in-value":
        return plain + f' data-t="</{name}>" title="<p>x</p>"'
    if kind == "newline-in-tag":
        return "\n " + plain.strip().replace('" ', '"\n ') + "\n"
    raise ValueError(kind)


def _close(name: str, case: str, close: str) -> str:
    n = _cased(name, case, end=True)
    return {"plain": f"</{n}>", "ws": f"</{n} >", "nl": f"</{n}\n>"}[close]


def _bulk(b: _B, size: int, line) -> str:
    """``line(i, tok)`` repeated up to ``size`` characters; a hidden token in the first line, halfway and in the last line."""
    out, n, i, marks = [], 0, 0, {0}
    while n < size:
        at_half = n >= size // 2 and 1 not in marks
        if at_half:
            marks.add(1)
        ln = line(i, b.r() if (i == 0 or at_half) else None)
        out.append(ln)
        n += len(ln)
        i += 1
    out.append(line(i, b.r()))
    return "".join(out)


def _raw_content(b: _B, name: str, kind: str, avoid: tuple = (), size: int = 1500) -> list:
    r = b.r
    js = name == "script"
    if kind == "long":
        if js:
            return ["\n" + _bulk(b, size, lambda i, t: f'  lib.f{i} = function (a, b) {{ return a < b ? "{t or i}" : a & b; }};\n')]
        return ["\n" + _bulk(b, size, lambda i, t: f'  .c{i} td > a {{ font-family: "Segoe UI", sans-serif; color: #{i % 4096:03x}; content: "{t or ""}"; }}\n')]
    if kind == "text":
        return [f'var a = "{r()}"; /* {r()} */' if js else f'.c {{ content: "{r()}"; }} /* {r()} */']
    if kind == "pseudo-markup":
        return [f'document.write("<p>{r()}</p><img src=x><br><div>{r()}");' if js
                else f'/* <p>{r()}</p><img src=x><div> */ p > a {{ color: red; }} /* <b>{r()} */']
    if kind == "pseudo-endtag":
        ends = "".join(e for e in ("</p>", "</div>", "</b>", "</td>", "</noscript>", "</iframe>", "</object>") if e[2:-1] not in avoid)
        return [f'var s = "{ends}{r()}</span>";' if js else f'/* {ends} {r()} </span> */']
    if kind == "pseudo-removable":
        inner = "".join(f"<{n}>{r()}</{n}>" for n in ("noscript", "iframe", "object") if n not in avoid)
        other = "style" if js else "script"
        return [(f'var t = "{inner}<{other}>{r()}";' if js else f'/* {inner}<{other}>{r()} */')
                + (f" </{other}> {r()} " if other not in avoid else "")]
    if kind == "comment-wrapped":
        return [f'<!--\n var x = "{r()}";\n//-->' if js else f'<!--\n .d {{ e: "{r()}" }}\n-->']
    if kind == "cdata-wrapped":
        return [f'//<![CDATA[\n var x = "{r()}";\n//]]>' if js else f'/*<![CDATA[*/ .d {{ e: "{r()}" }} /*]]>*/']
    if kind == "ltgt":
        return [f'if (a<b && c>d) {{ x = "{r()}"; }} for (i=0;i<n;i++) {{ y = a<b>c; }} // {r()}' if js
                else f'ul>li {{ x: "{r()}" }} a<b {{ y: "{r()}" }}']
    if kind == "multiline":
        return [f'\n  function f() {{\n    return "{r()}";\n  }}\n\n  // {r()}\n' if js else f'\n  .m {{\n    n: "{r()}";\n  }}\n\n  /* {r()} */\n']
    if kind == "empty":
        return [""]
    if kind == "document-write":        # a whole document, with its closing tags, as text of the removed element
        return [f'\nfunction help() {{\n  var w = window.open("", "h");\n  w.document.write("<html><head></head><body><p>{r()}</p></body></html>");\n  w.document.close();\n}}\n// {r()}\n'
                if js else f'\n/* <html><body> {r()} </body></html> */\n.p {{ q: "{r()}" }}\n/* </BODY></HTML> */\n']
    raise ValueError(kind)


def _normal_content(b: _B, name: str, kind: str, variant: int = 0, size: int = 1500) -> list:
    r = b.r
    if kind == "long":
        return ["\n" + _bulk(b, size, lambda i, t: f'<a href="http://example.org/t/{i}"><img src="http://example.org/px/{i}.gif" alt="" width="1" height="1"/>{t or ""}</a><br/>\n')]
    if kind == "text":
        return [f"Please enable JavaScript {r()} or use {r()}"]
    if kind == "balanced":
        return [f"<p>{r()}</p><div><span>{r()}</span> {r()}</div><ul><li>{r()}</li></ul>"]
    if kind == "void-selfclosed":
        return [f'<img src="p.gif" alt="x"/>{r()}<br/>{r()}<param name="a" value="b"/><input type="hidden"/><hr />{r()}']
    if kind == "void-bare":
        v = VOID_CHILDREN[variant % len(VOID_CHILDREN)]
        benign = v[:-1] + "/>"
        return [r() + " ", Alt(v, benign), " " + r()]
    if kind == "nested-same":
        return [f'{r()}<{name} data="inner.swf">{r()}</{name}>{r()}']
    if kind == "nested-other":
        other = [n for n in NORMAL if n != name][variant % 3]
        return [f'<{other} src="x.html">{r()}</{other}>{r()}']
    if kind == "nested-rawtext":
        av = (name,)
        return (["<style>"] + _raw_content(b, "style", ("text", "pseudo-markup", "pseudo-endtag")[variant % 3], av) + ["</style>"]
                + ["<script>"] + _raw_content(b, "script", ("pseudo-markup", "ltgt", "pseudo-endtag")[variant % 3], av) + ["</script>", r()])
    if kind == "nested-embed":
        return [f'<param name="movie" value="m.swf"/><embed src="m.swf" width="1"/>{r()}<embed src="n.swf"></embed>{r()}']
    if kind == "stray-endtag":
        e = STRAY_END[variant % len(STRAY_END)]
        return [r() + " ", Alt(e, f"<{e[2:-1]}>{e}"), " " + r()]
    if kind == "unclosed-inner":
        o = UNCLOSED_OPEN[variant % len(UNCLOSED_OPEN)]
        tagname = re.match(r"<([a-zA-Z]+)", o).group(1)
        tok = r()
        return [r() + " ", Alt(f"{o}{tok}", f"{o}{tok}</{tagname}>")]
    if kind == "stray-removable-endtag":
        pool = [e for e in STRAY_REMOVABLE_END if re.sub(r"[^a-z]", "", e.lower()) != name]
        e = pool[variant % len(pool)]
        other = re.sub(r"[^a-zA-Z]", "", e)
        return [r() + " ", Alt(e, f"<{other}>{e}"), " " + r()]
    if kind == "unclosed-removable":
        assert name in UNCLOSED_REMOVABLE_PARENTS
        pool = [o for o in UNCLOSED_REMOVABLE_OPEN if re.match(r"<([a-zA-Z]+)", o).group(1).lower() != name]
        o = pool[variant % len(pool)]
        tagname = re.match(r"<([a-zA-Z]+)", o).group(1)
        tok = r()
        return [r() + " ", Alt(f"{o}{tok}", f"{o}{tok}</{tagname}>")]
    if kind == "misnested-inner":
        return [f"<b><i>{r()}</b></i> <p><span>{r()}</p></span> <div><a href=\"x\">{r()}</div></a>"]
    if kind == "comment":
        return [f"<!-- {r()} <p> --> {r()} <!-- </b> {r()} -->"]
    if kind == "cdata":
        return [f"<![CDATA[ {r()} > {r()} ]]>{r()}"]
    if kind == "attr-gt":
        return [f'<a href="x" title="a>b">{r()}</a><img alt="1>2" src="x"/><span data-x=\'<p>\'>{r()}</span>']
    if kind == "selfclosed-nonvoid":
        return [f"<p/>{r()}<span/>{r()}<div />{r()}"]
    if kind == "entities":
        return [f"&lt;/{name}&gt; {r()} &amp; &lt;p&gt; {r()} &#60;/{name}&#62; {r()}"]
    if kind == "empty":
        return [""]
    if kind == "full-document":         # fallback content that is a complete page: <html>, <body> and their end tags
        return [f'<html><body>\n<p>{r()}</p>\n</body></html>\n{r()}' if variant % 2 else f'<HTML><BODY><div>{r()}</div></BODY></HTML> {r()}']
    raise ValueError(kind)


def _comment(b: _B, kind: str, size: int = 1500) -> list:
    r = b.r
    if kind == "long":
        return ["<!--\n" + _bulk(b, size, lambda i, t: f"  ** generated by mail-merge 4.{i}; template {t or 'n/a'}; do not edit below this line **\n") + "-->"]
    if kind == "plain":
        return [f"<!-- {r()} {r()} -->"]
    if kind == "tight":
        return [f"<!--{r()}-->"]
    if kind == "multiline":
        return [f"<!--\n  {r()}\n\n  {r()}\n-->"]
    if kind == "with-tags":
        return [f"<!-- <p>{r()}</p> <div> {r()} </b> <img src=x> <br> -->"]
    if kind == "with-gt":
        return [f"<!-- a > {r()} >> {r()} -> {r()} -->"]
    if kind == "with-dashes":
        return [f"<!-- a -- {r()} - {r()} --- {r()} -->"]
    if kind == "with-removable":
        return [f"<!-- <script>{r()}</script> <noscript>{r()}</noscript> <style> {r()} <embed src=x> -->"]
    if kind == "conditional":
        return [f"<!--[if lt IE 9]><p>{r()}</p><script src=\"h.js\"></script>{r()}<![endif]-->"]
    if kind == "empty":
        return ["<!---->"]
    if kind == "with-quotes":
        return [f"<!-- \"{r()}' `{r()} -->"]
    if kind == "pi":
        return [f"<?php echo \"{r()}\"; {r()} ?>"]
    if kind == "decl":
        return [f"<!ELEMENT {r()} ({r()})>"]
    if kind == "doctype-like":
        return [f"<!{r()} {r()}>"]
    if kind == "if-plain-close":        # starts like a conditional comment, ends like a plain one
        return [f"<!--[if gte mso 9]> {r()} <b>{r()}</b> -->"]
    if kind == "xml-island":
        return [f"<!--[if gte mso 9]><xml>\n <o:OfficeDocumentSettings><o:AllowPNG/><o:PixelsPerInch>{r()}</o:PixelsPerInch></o:OfficeDocumentSettings>\n</xml><![endif]-->"]
    if kind == "page-skeleton":
        return [f"<!--\n<html>\n<body>\n<p>{r()}</p>\n</body>\n</html>\n{r()} -->"]
    if kind == "endif-lookalike":
        return [f"<!-- {r()} <![endif] {r()} [if mso]> {r()} -->"]
    raise ValueError(kind)


def construct(b: _B, spec: dict) -> list:
    """Segments of one removable construct.  spec keys: name, kind, attr, case, close, variant."""
    rng = b.rng
    name = spec["name"]
    kind = spec.get("kind") or rng.choice(kinds_for(name))
    attr = spec.get("attr") or rng.choice(ATTR_KINDS)
    case = spec.get("case") or rng.choice(("lower", "lower", "lower", "upper", "mixed"))
    close = spec.get("close") or rng.choice(("plain", "plain", "plain", "ws", "nl"))
    variant = spec.get("variant", rng.randrange(1000))
    spec.update(kind=kind, variant=variant)
    size = 0
    if kind == "long":
        size = spec.get("size") or rng.choice(LONG_SIZES)
        spec.update(size=size)
        b.f(f"long:{size}")
    b.f(f"el:{name}", f"c:{name if name == 'comment' else ('raw' if name in RAWTEXT else 'embed' if name == 'embed' else 'normal')}:{kind}")
    if name == "comment":
        return _comment(b, kind, size)
    spec.update(attr=attr, case=case, close=close)
    b.f(f"attr:{attr}", f"case:{case}")
    open_ = f"<{_cased(name, case)}{_attrs(b, name, attr)}"
    if name == "embed":
        if kind == "embed-selfclosed":
            return [open_.rstrip("\n") + ("/>" if attr != "unquoted" else " />")]
        if kind == "embed-paired":
            b.f(f"close:{close}")
            return [open_ + ">", _close(name, case, close)]
        if kind == "embed-bare":
            return [Alt(open_ + ">", open_.rstrip("\n") + ("/>" if attr != "unquoted" else " />"))]
        raise ValueError(kind)
    b.f(f"close:{close}")
    if kind == "orphan-endtag":                 # the element was closed once too often / its end tag is duplicated
        end = _close(name, case, close)
        return [Alt(end, f"<{_cased(name, case)}>{end}")]
    if kind == "selfclosed-removable":          # EPUB (XHTML) only: <script src="x"/> is an empty element
        a = _attrs(b, name, "plain")
        return [f"<{_cased(name, case)}{a}/>"]
    inner = _raw_content(b, name, kind, (), size) if name in RAWTEXT else _normal_content(b, name, kind, variant, size)
    return [open_ + ">"] + inner + [_close(name, case, close)]


def slot(b: _B, position: str, spec: dict) -> tuple[list, list]:
    """Visible container with the construct embedded.  Returns (head_segments, body_segments)."""
    v = b.vis

    def X():
        b.seen = True
        return [BEGIN] + construct(b, spec) + [END]

    b.f(f"pos:{position}")
    if position == "head":
        x = X()
        return x, [f"<p>{v()}</p>"]
    if position == "body-level":
        return [], [f"<p>{v()}</p>\n"] + X() + [f"\n<p>{v()}</p>"]
    if position == "p-inline":
        return [], [f"<p>{v()} "] + X() + [f" {v()}</p>"]
    if position == "p-glued":
        return [], [f"<p>{v()}"] + X() + [f"{v()}</p>"]
    if position == "p-start":
        return [], [f"<p>{v()}</p><p>"] + X() + [f"{v()}</p>"]
    if position == "p-end":
        return [], [f"<p>{v()}"] + X() + [f"</p><p>{v()}</p>"]
    if position == "div":
        return [], [f"<div>{v()} "] + X() + [f" {v()}</div>"]
    if position == "div-blocks":
        return [], [f'<div class="c"><p>{v()}</p>'] + X() + [f"<p>{v()}</p></div>"]
    if position == "li":
        return [], [f"<ul><li>{v()}</li><li>{v()} "] + X() + [f" {v()}</li><li>{v()}</li></ul>"]
    if position == "ol-between":
        return [], [f"<ol><li>{v()}</li>"] + X() + [f"<li>{v()}</li></ol>"]
    if position == "heading":
        n = b.rng.randint(1, 3)
        return [], [f"<h{n}>{v()} "] + X() + [f" {v()}</h{n}><p>{v()}</p>"]
    if position == "span":
        return [], [f'<p><span class="s">{v()} '] + X() + [f" {v()}</span> {v()}</p>"]
    if position == "a-link":
        return [], [f'<p><a href="http://example.org/a">{v()} '] + X() + [f" {v()}</a> {v()}</p>"]
    if position == "blockquote":
        return [], [f"<blockquote>{v()} "] + X() + [f" {v()}</blockquote>"]
    if position == "pre":
        return [], [f"<pre>{v()}\n"] + X() + [f"\n{v()}</pre>"]
    if position == "doc-start":
        return [], X() + [f"<p>{v()}</p>"]
    if position == "doc-end":
        return [], [f"<p>{v()}</p>"] + X()
    if position == "nested-divs":
        return [], [f"<div><div><section>{v()} "] + X() + [f" {v()}</section></div>{v()}</div>"]
    # ctx-*: an already closed child of the same parent, the construct, then character data before the next start tag
    if position == "ctx-p-inline":
        return [], [f"<p>{v()} <b>{v()}</b> {v()} "] + X() + [f" {v()} <i>{v()}</i> {v()}</p>"]
    if position == "ctx-p-glued":
        return [], [f"<p>{v()} <em>{v()}</em>"] + X() + [f"{v()} <span>{v()}</span></p>"]
    if position == "ctx-div-block":
        return [], [f"<div><p>{v()}</p>"] + X() + [f"{v()}<p>{v()}</p></div>"]
    if position == "ctx-li-link":
        return [], [f'<ul><li>{v()}</li><li><a href="http://example.org/l">{v()}</a> '] + X() + [f" {v()}</li><li>{v()}</li></ul>"]
    if position == "ctx-body-text":
        return [], [f"<p>{v()}</p>\n"] + X() + [f" {v()}\n<p>{v()}</p>"]
    if position == "ctx-span-void":
        return [], [f'<p><span class="s">{v()}<br/>{v()} '] + X() + [f" {v()}</span> {v()}</p>"]
    if position == "ctx-bq-blocks":
        return [], [f"<blockquote><p>{v()}</p><p>{v()}</p> "] + X() + [f" {v()} <p>{v()}</p></blockquote>"]
    if position == "ctx-td-inline":
        return [], [f"<table><tr><td><b>{v()}</b> "] + X() + [f" {v()}</td><td>{v()}</td></tr><tr><td>{v()}</td><td>{v()}</td></tr></table><p>{v()}</p>"]
    if position == "td-mid":
        return [], [f"<table><tr><td>{v()} "] + X() + [f" {v()}</td><td>{v()}</td></tr><tr><td>{v()}</td><td>{v()}</td></tr></table><p>{v()}</p>"]
    if position == "td-last":
        return [], [f"<table><tr><td>{v()}"] + X() + [f"</td><td>{v()}</td></tr><tr><td>{v()}</td><td>{v()}</td></tr></table><p>{v()}</p>"]
    if position == "td-only":
        return [], [f"<table><tr><td>{v()}</td><td>"] + X() + [f"</td><td>{v()}</td></tr><tr><td>{v()}</td><td>{v()}</td><td>{v()}</td></tr></table><p>{v()}</p>"]
    if position == "th":
        return [], [f"<table><tr><th>{v()} "] + X() + [f" {v()}</th><th>{v()}</th></tr><tr><td>{v()}</td><td>{v()}</td></tr></table>"]
    if position == "tr-between":
        return [], [f"<table><tr><td>{v()}</td></tr>"] + X() + [f"<tr><td>{v()}</td></tr><tr><td>{v()}</td></tr></table><p>{v()}</p>"]
    raise ValueError(position)


def _wrap(b: _B, wrapper: str, head: list, body: list) -> list:
    if wrapper == "fragment":
        return head + body          # a head-position construct simply precedes the fragment
    if wrapper == "body-only":
        return head + ["<body>\n"] + body + ["\n</body>"]
    if wrapper == "full":
        return (['<!DOCTYPE html>\n<html lang="en"><head><meta charset="utf-8"><title>Doc</title>'] + head
                + ["</head>\n<body>\n"] + body + ["\n</body></html>\n"])
    if wrapper == "xhtml":
        return (['<?xml version="1.0" encoding="utf-8"?>\n<!DOCTYPE html PUBLIC "-//W3C//DTD XHTML 1.1//EN" '
                 '"http://www.w3.org/TR/xhtml11/DTD/xhtml11.dtd">\n<html xmlns="http://www.w3.org/1999/xhtml"><head><title>Ch</title>']
                + head + ["</head>\n<body>\n"] + body + ["\n</body></html>\n"])
    raise ValueError(wrapper)


def _tail(b: _B, kind: str) -> list:
    """A construct that is still open when the input ends (risky) / the same construct terminated (benign)."""
    r = b.r
    if kind == "comment":
        return [f"<!-- {r()} {r()}", Alt("", " -->")]
    if kind == "comment-tight":
        return [f"<!--{r()}", Alt("", "-->")]
    if kind == "comment-tags":
        return [f"<!-- {r()} <b>{r()}</b> <p>{r()}</p> <br> {r()}\n", Alt("", "-->\n")]
    if kind == "comment-gt":
        return [f"<!-- a > {r()} -> {r()} -- {r()}", Alt("", " -->")]
    if kind == "comment-removable":
        return [f"<!-- <script>{r()}</script> <noscript>{r()}</noscript> {r()}", Alt("", "-->")]
    if kind == "comment-conditional":
        return [f"<!--[if lt IE 9]><p>{r()}</p>{r()}", Alt("", "<![endif]-->")]
    if kind == "comment-multiline":
        return [f"<!--\n  {r()}\n\n  {r()}\n", Alt("", "-->\n")]
    if kind == "decl":
        return [f"<!ELEMENT {r()} ({r()})", Alt("", ">")]
    if kind == "doctype-like":
        return [f"<!{r()} {r()}", Alt("", ">")]
    if kind == "pi":
        return [f"<?php echo \"{r()}\"; {r()} ", Alt("", "?>")]
    raise ValueError(kind)


# A fragment may end in bare text (no closing tag, no newline) whose last words hold a literal '&' followed by letters:
# an html.parser with convert_charrefs keeps such text back until the end of the input.  {t} is the visible token.
AMP_TAILS = ("{t} R&D", "Ask the {t} R&D", "{t} AT&T", "{t} a&b", "R&D/{t}", "x&y={t}", "{t} Q&A")


def make_body(rng, specs: list[dict], *, wrapper: str | None = None, fillers: int | None = None,
              risky: str | None = None, tail_spec: dict | None = None, bare_tail: str | None = None) -> Body:
    """Build one body.  ``specs``: list of dicts with keys name, position (+ optional kind/attr/case/close/variant).

    If ``risky`` is set, exactly one spec must carry ``"risky": True``; its kind is forced to the risky form.
    ``risky="unterminated-trailing-construct"`` is the exception: all specs are clean and the document ends in an
    unterminated comment / declaration / PI (``tail_spec``: optional kind / trunc), the twin terminates it.
    """
    tail_spec = tail_spec or {}
    b = _B(rng, rng.randrange(0, 90000))
    if bare_tail:
        wrapper = "fragment"
    wrapper = wrapper or rng.choice(WRAPPERS)
    if any(s["position"] == "head" for s in specs) and wrapper == "body-only":
        wrapper = "full"
    b.body.wrapper = wrapper
    b.f(f"wrap:{wrapper}")
    fillers = rng.randint(0, 3) if fillers is None else fillers
    head: list = []
    body: list = []
    # head-position constructs first (document order), then the rest in order with fillers in between
    ordered = [s for s in specs if s["position"] == "head"] + [s for s in specs if s["position"] != "head"]
    n_risky = 0
    for s in ordered:
        s = dict(s)
        if s.pop("risky", False):
            assert risky in RISKY and risky != "unterminated-trailing-construct"
            n_risky += 1
            assert s["position"] not in TABLE_POSITIONS
            if risky == "bare-void-embed":
                assert s["name"] == "embed"
                s["kind"] = "embed-bare"
            elif risky == "orphan-removable-endtag":
                assert s["name"] in ORPHAN_NAMES
                s["kind"] = "orphan-endtag"
            else:
                assert s["name"] in NORMAL
                s["kind"] = RISKY_KINDS[risky]
        else:
            # clean constructs never use a risky kind
            assert s.get("kind") not in _RISKY_ONLY_KINDS
        if s["position"] != "head":
            for _ in range(rng.randint(0, fillers)):
                body += _filler_fixed(b)
                body.append("\n")
        h, bd = slot(b, s["position"], s)
        head += h
        body += bd
        body.append("\n")
        b.body.constructs.append(s)
    for _ in range(rng.randint(0, fillers)):
        body += _filler_fixed(b)
        body.append("\n")
    if bare_tail:
        assert risky is None and not head
        while body and body[-1] == "\n":
            body.pop()
        b.f("end:bare-text-with-ampersand")
        b.body.literal = bare_tail.format(t=b.vis())
        body.append(("\n" if rng.random() < 0.5 else " ") + b.body.literal)
    trunc = None
    if risky == "unterminated-trailing-construct":
        n_risky += 1
        trunc = tail_spec.get("trunc") or rng.choice(TRUNC_KINDS)
        kind = tail_spec.get("kind") or rng.choice(TAIL_KINDS)
        b.f(f"tail:{kind}", f"trunc:{trunc}")
        if trunc == "mid-paragraph":            # the document breaks off inside its last paragraph
            body.append(f"<p>{b.vis()} ")
        elif trunc == "mid-div":
            body.append(f"<div><p>{b.vis()}</p>{b.vis()}")
        tail = [BEGIN] + _tail(b, kind) + [END]
    if risky:
        assert n_risky == 1
        b.body.risky = risky
    segs = _wrap(b, wrapper, head, body)
    if trunc:
        if trunc != "after-document" and wrapper != "fragment":
            assert segs[-1].startswith("\n</body>")
            segs = segs[:-1]                    # the closing tags were cut off with the rest of the input
        segs = segs + tail
    b.body.segments = segs
    if any(s.get("kind") == "selfclosed-removable" for s in b.body.constructs):
        b.body.epub_only = True
    return b.body


FILLER_FEATURES = ("v:downlevel-revealed-block", "v:downlevel-revealed-inline", "v:between-if-comments")
REVEALED_PAIRS = (("<!--[if !mso]><!-->", "<!--<![endif]-->"), ("<!--[if !IE]><!-->", "<!--<![endif]-->"),
                  ("<!--[if !mso]><!-- -->", "<!-- <![endif]-->"), ("<!--[if (gt IE 9)|!(IE)]><!-->", "<!--<![endif]-->"),
                  ("<!--[if !vml]><!-->", "<!--<![endif]-->"), ("<!--[IF !MSO]><!-->", "<!--<![ENDIF]-->"))


def _filler_fixed(b: _B) -> list:
    f = _filler_k(b, b.rng.randrange(13))
    return f if isinstance(f, list) else [f]


def _hidden(b: _B, text: str) -> list:
    """A comment among the visible filler markup: a removable construct of its own (deleted in the reference)."""
    b.seen = True
    return [BEGIN, text, END]


def _filler_k(b: _B, k: int) -> str:
    v = b.vis
    if k == 0 or k == 9:
        return f"<p>{v()} {v()}</p>"
    if k == 1:
        return f"<div>{v()} <b>{v()}</b> <i>{v()}</i></div>"
    if k == 2:
        return f"<ul><li>{v()}</li><li>{v()}</li></ul>"
    if k == 3:
        n = b.rng.randint(1, 3)
        return f"<h{n}>{v()}</h{n}>"
    if k == 4:
        return f"<table><tr><th>{v()}</th><th>{v()}</th></tr><tr><td>{v()}</td><td>{v()}</td></tr></table>"
    if k == 5:
        b.f("v:escaped-markup")
        return f"<p>use &lt;script&gt;{v()}&lt;/script&gt; and &lt;!-- {v()} --&gt; and &lt;noscript&gt; {v()}</p>"
    if k == 6:
        b.f("v:revealed-conditional")
        return f"<![if !IE]><p>{v()}</p><![endif]>"
    if k == 7:
        return f'<p><a href="http://example.org/{b.rng.randrange(99)}">{v()}</a> {v()}<br/>{v()}</p>'
    if k == 8:
        b.f("v:cdata-in-body")
        return f"<p>{v()}</p><![CDATA[ {b.u()} > {b.u()} ]]><p>{v()}</p>"
    # comment forms AROUND and BETWEEN visible markup: each comment is complete in itself, what stands between two of
    # them is ordinary visible markup (the "downlevel-revealed" conditional comment of HTML mail / Office exports)
    if k == 10:
        b.f("v:downlevel-revealed-block")
        o, c = REVEALED_PAIRS[b.rng.randrange(len(REVEALED_PAIRS))]
        mid = b.rng.choice((lambda: f'<p>{v()} <a href="http://example.org/r">{v()}</a></p>',
                            lambda: f"<h2>{v()}</h2><p>{v()}</p>",
                            lambda: f"<table><tr><td>{v()}</td><td>{v()}</td></tr></table>",
                            lambda: f"<ul><li>{v()}</li></ul>\n<div>{v()}</div>"))
        return [f"<p>{v()}</p>\n"] + _hidden(b, o) + ["\n" + mid() + "\n"] + _hidden(b, c) + [f"\n<p>{v()}</p>"]
    if k == 11:
        b.f("v:downlevel-revealed-inline")
        o, c = REVEALED_PAIRS[b.rng.randrange(len(REVEALED_PAIRS))]
        return [f"<p>{v()} "] + _hidden(b, o) + [f"{v()} <b>{v()}</b> "] + _hidden(b, c) + [f" {v()}</p>"]
    if k == 12:
        b.f("v:between-if-comments")
        r = b.r
        first = b.rng.choice((lambda: f"<!--[if gte mso 9]> {r()} -->", lambda: f"<!--[if mso]>{r()}-->",
                              lambda: f"<!--[if lt IE 9]><p>{r()}</p>\n-->", lambda: f"<!--[if !mso]> {r()} <!-->"))()
        seg = _hidden(b, first) + [f"\n<p>{v()}</p><h3>{v()}</h3>\n"]
        last = b.rng.choice((lambda: f"<!--[if mso]><p>{r()}</p><![endif]-->", lambda: f"<!--[if gte mso 9]><xml><o:p>{r()}</o:p></xml><![endif]-->",
                             lambda: f"<!-- {r()} <![endif]-->", lambda: "<!--<![endif]-->"))()
        return seg + _hidden(b, last) + [f"\n<p>{v()}</p>"]
    raise ValueError(k)


# ----------------------------------------------------------------------------------------- case streams
def systematic_clean(rng):
    """Seed-independent coverage skeleton (choices inside each body still come from rng)."""
    # 1. every construct name at every position
    for name in NAMES:
        for pos in POSITIONS:
            b = make_body(rng, [{"name": name, "position": pos}])
            b.want_ref = True
            yield b
    # 2. every content kind of every name, twice (two attribute/case draws)
    for name in NAMES:
        for kind in kinds_for(name):
            for rep in range(2):
                yield make_body(rng, [{"name": name, "kind": kind, "position": rng.choice(POSITIONS), "variant": rep}])
    # 3. every start-tag attribute form / case / end-tag form of every element
    for name in REMOVABLE:
        for attr in ATTR_KINDS:
            yield make_body(rng, [{"name": name, "attr": attr, "position": rng.choice(POSITIONS)}])
        for case in CASE_KINDS:
            for close in CLOSE_KINDS:
                yield make_body(rng, [{"name": name, "case": case, "close": close, "position": rng.choice(POSITIONS)}])
    # 4. attributes x table positions (a removed element with attributes as first/last/only child of a cell)
    for name in REMOVABLE:
        for pos in TABLE_POSITIONS:
            for attr in ("none", "plain"):
                yield make_body(rng, [{"name": name, "attr": attr, "position": pos}], fillers=0)


def systematic_preambles(rng):
    """A long removable construct as the first thing of the document (fragment: its very first characters) or in its head."""
    for name in ("style", "script", "comment", "noscript", "iframe", "object"):
        for wrapper in WRAPPERS:
            for i, size in enumerate(LONG_SIZES):
                pos = "doc-start" if wrapper in ("fragment", "body-only") or i == 1 else "head"
                spec = {"name": name, "kind": "long", "size": size, "position": pos}
                if name != "comment":
                    spec["attr"] = ("plain", "quotes", "unquoted")[i]
                b = make_body(rng, [spec], wrapper=wrapper)
                b.want_ref = i == 0
                yield b


_ANNOUNCE_RE = re.compile(r"<!doctype|<html|<body|<(p|div|br|span|table|tr|td)>", re.I)


def announces_html(doc: str) -> bool:
    """Does the markup show one of the forms every "is this HTML?" sniffer knows: a doctype, <html, <body or a bare
    <p> <div> <br> <span> <table> <tr> <td>?  (A fragment of headings, lists, links and attribute-carrying tags does not.)"""
    return _ANNOUNCE_RE.search(doc) is not None


def quiet_fragments(rng, n: int):
    """Fragments that do NOT announce themselves (see announces_html): headings, lists, quotes, links, tags with attributes."""
    made = tries = 0
    while made < n and tries < 40 * n:
        tries += 1
        name = rng.choice(("comment", "comment", "style", "script", "noscript", "iframe", "object"))
        spec = {"name": name, "position": rng.choice(("li", "ol-between", "blockquote", "pre"))}
        if name != "comment":
            spec["attr"] = rng.choice(("plain", "quotes", "unquoted"))
        b = make_body(rng, [spec], wrapper="fragment", fillers=0)
        if announces_html(b.render()) or announces_html(b.render(strip=True)):
            continue
        made += 1
        yield b


def systematic_bare_tails(rng):
    """Fragments that end in bare text with a literal '&', behind every kind of removed element (reference: without it)."""
    for i, name in enumerate(NAMES):
        for j, tail in enumerate(AMP_TAILS):
            pos = NONTABLE_POSITIONS[(5 * i + 3 * j) % len(NONTABLE_POSITIONS)]
            if pos == "head":
                pos = "doc-end"
            b = make_body(rng, [{"name": name, "position": pos}], bare_tail=tail, fillers=(i + j) % 2)
            b.want_ref = j % 2 == 0
            yield b


def systematic_epub_only(rng):
    for name in NORMAL + RAWTEXT:
        for pos in ("body-level", "p-inline", "td-last", "head", "li"):
            yield make_body(rng, [{"name": name, "kind": "selfclosed-removable", "position": pos}], wrapper="xhtml")


def systematic_risky(rng):
    for i, kind in enumerate(TAIL_KINDS):
        for j, trunc in enumerate(TRUNC_KINDS):
            k = (i + j) % 3
            specs = [{"name": NAMES[(i + j + n) % len(NAMES)], "position": NONTABLE_POSITIONS[(3 * i + 5 * j + n) % len(NONTABLE_POSITIONS)]} for n in range(k)]
            specs = [s for s in specs if s["position"] != "head"]
            yield make_body(rng, specs, risky="unterminated-trailing-construct", tail_spec={"kind": kind, "trunc": trunc},
                            fillers=None if specs else 2)
    # orphan end tag: element X removed, later </X> (or another removable name) with nothing open, then more removed elements
    content = [n for n in NAMES if n not in ("embed", "comment")]
    for k, name in enumerate(ORPHAN_NAMES):
        for i, pos in enumerate(NONTABLE_POSITIONS):
            if pos == "head" or (i + k) % 2:
                continue
            before = {"name": name if i % 3 else ORPHAN_NAMES[(k + 1) % len(ORPHAN_NAMES)], "position": POSITIONS[(i * 5 + k) % len(POSITIONS)]}
            after = [{"name": content[(i + k + j) % len(content)], "position": POSITIONS[(i * 3 + k + 7 * j + 1) % len(POSITIONS)]} for j in range(1 + i % 2)]
            specs = [before, {"name": name, "position": pos, "risky": True}] + after
            if any(s["position"] == "head" for s in specs):
                for s in specs:
                    if s["position"] == "head":
                        s["position"] = "body-level"
            yield make_body(rng, specs, risky="orphan-removable-endtag")
    for feature in RISKY:
        names = risky_names(feature)
        for k, name in enumerate(names):
            for i, pos in enumerate(NONTABLE_POSITIONS):
                if len(names) > 2 and (i + k) % 2:      # four element names: every position with two of them
                    continue
                reps = 2 if feature == "bare-void-embed" else 1
                step = 3 if "removable" in feature else 7       # coprime to the size of the feature's tag pool
                for rep in range(reps):
                    yield make_body(rng, [{"name": name, "position": pos, "risky": True,
                                           "variant": i * step + rep * 3 + NORMAL.index(name) if name in NORMAL else i + rep}],
                                    risky=feature)


def random_clean(rng, n: int):
    for _ in range(n):
        k = rng.choice((1, 2, 2, 3, 4))
        specs = [{"name": rng.choice(NAMES), "position": rng.choice(POSITIONS)} for _ in range(k)]
        if sum(1 for s in specs if s["position"] == "head") > 1:
            continue
        if rng.random() < 0.06 and not any(s["position"] == "head" for s in specs):
            yield make_body(rng, specs, bare_tail=rng.choice(AMP_TAILS))
            continue
        yield make_body(rng, specs)


def random_risky(rng, n: int):
    for _ in range(n):
        feature = rng.choice(RISKY)
        k = rng.choice((0, 1, 1, 2))
        specs = [{"name": rng.choice(NAMES), "position": rng.choice(POSITIONS)} for _ in range(k)]
        if sum(1 for s in specs if s["position"] == "head") > 0:
            continue
        if feature == "unterminated-trailing-construct":
            yield make_body(rng, specs, risky=feature, fillers=None if specs else 2)
            continue
        if feature == "orphan-removable-endtag":
            at = rng.randint(0, len(specs))
            prev = [s["name"] for s in specs[:at] if s["name"] in ORPHAN_NAMES]
            name = prev[-1] if prev and rng.random() < 0.6 else rng.choice(ORPHAN_NAMES)
            specs.insert(at, {"name": name, "position": rng.choice(NONTABLE_POSITIONS), "risky": True})
            if at == len(specs) - 1 or rng.random() < 0.5:
                specs.append({"name": rng.choice(NAMES), "position": rng.choice(POSITIONS)})
            if any(s["position"] == "head" for s in specs):
                continue
            yield make_body(rng, specs, risky=feature)
            continue
        rs = {"name": rng.choice(risky_names(feature)), "position": rng.choice(NONTABLE_POSITIONS), "risky": True}
        specs.insert(rng.randint(0, len(specs)), rs)
        yield make_body(rng, specs, risky=feature)


# ----------------------------------------------------------------------------------------- carriers
def render_mhtml(doc: str, params: dict) -> bytes:
    """MHTML (multipart/related) through the stdlib email package."""
    from email.message import EmailMessage

    msg = EmailMessage()
    msg["From"] = "<Saved by Blink>"
    msg["Snapshot-Content-Location"] = "http://example.org/page.html"
    msg["Subject"] = "page"
    msg["Date"] = "Thu, 01 Jan 2026 00:00:00 -0000"
    msg["MIME-Version"] = "1.0"
    root = params.get("root", "text/html")
    if root == "text/html":
        msg.set_content(doc, subtype="html", charset="utf-8", cte=params.get("cte", "quoted-printable"))
    else:
        # an archived XHTML page: the root part is not labelled text/html and travels unencoded (the library then looks for
        # the document in the raw bytes of the archive, so the caller passes a complete <html>..</html> document)
        maintype, subtype = root.split("/")
        msg.set_content(doc.encode("utf-8"), maintype=maintype, subtype=subtype, cte="8bit", params={"charset": "utf-8"})
    msg["Content-Location"] = "http://example.org/page.html"
    if params.get("related", True):
        png = (b"\x89PNG\r\n\x1a\n\x00\x00\x00\rIHDR\x00\x00\x00\x01\x00\x00\x00\x01\x08\x06\x00\x00\x00\x1f\x15\xc4\x89"
               b"\x00\x00\x00\rIDATx\x9cc\xf8\xff\xff?\x00\x05\xfe\x02\xfe\xa75\x81\x84\x00\x00\x00\x00IEND\xaeB`\x82")
        msg.add_related(png, maintype="image", subtype="png", cid="<p@x>")
        msg.add_related("p { color: red; }\n", subtype="css")
    return msg.as_bytes()


# How a content document may END with something still open: (name, text that opens it, text that would have closed it).
# {u} is a token whose fate inside that document is debatable (class u); what matters is the NEXT document.
CHAPTER_ENDINGS = (
    ("open-iframe", '<iframe src="f.html" width="1" height="1">{u}', "</iframe>"),
    ("open-object", '<object data="m.swf"><param name="a" value="b"/>{u}', "</object>"),
    ("open-noscript", '<noscript><img src="p.gif" alt=""/>{u}', "</noscript>"),
    ("open-applet", '<applet code="A.class">{u}', "</applet>"),
    ("open-script", '<script type="text/javascript">var a = "{u}";', "</script>"),
    ("open-style", '<style type="text/css">.c {{ d: "{u}" }}', "</style>"),
    ("open-script-upper", '<SCRIPT>{u}', "</SCRIPT>"),
    ("misnested-endtag-never-matches", '<noscript><div>{u}</div></noscrip>', "</noscript>"),
    ("open-iframe-closed-by-other-name", '<iframe src="f.html">{u}</object>', "</iframe>"),
    ("nested-same-name-one-end-missing", '<object data="a"><object data="b">{u}</object>', "</object>"),
    ("open-comment", '<!-- {u}', " -->"),
    ("open-conditional-comment", '<!--[if mso]><p>{u}</p>', "<![endif]-->"),
    ("open-cdata", '<![CDATA[ {u}', " ]]>"),
    ("open-pi", '<?php echo "{u}"; ', "?>"),
    ("open-declaration", '<!ELEMENT {u} (x)', ">"),
    ("cut-off-start-tag", '<a href="x.html" title="{u}', '">x</a>'),
    ("cut-off-attribute", '<p class=', '"c">{u}</p>'),
    ("open-table-cell", '<table><tr><td>{u}', "</td></tr></table>"),
    ("open-title", '<title>{u}', "</title>"),
    ("open-pre", '<pre>{u}\n', "</pre>"),
    ("open-blocks", '<div><blockquote><p>{u}', "</p></blockquote></div>"),
    ("orphan-removable-endtags", '{u}</script></noscript></iframe></object></style>', ""),
    ("pending-entity", '{u} &amp', ";"),
)


def open_ended_chapter(ending: tuple, vis: str, unj: str, terminated: bool, closers: bool) -> str:
    """A complete chapter document with a visible paragraph, then ``ending`` (terminated: its benign, closed form)."""
    head = ('<?xml version="1.0" encoding="utf-8"?>\n<html xmlns="http://www.w3.org/1999/xhtml"><head><title>Before</title></head>\n<body>\n'
            f"<p>{vis}</p>\n")
    name, open_, close = ending
    body = open_.format(u=unj) + (close if terminated else "")
    return head + body + ("\n</body></html>\n" if (closers or terminated) else "")


def render_msg(doc: str, params: dict) -> bytes:
    """Minimal Outlook .msg (compound file): subject, transport headers and the HTML body in PidTagHtml (0x1013, binary)."""
    from vlib.gen import cfb

    hdr = ("From: Alice Example <alice@example.org>\r\nTo: Bob Example <bob@example.org>\r\nSubject: Report\r\n"
           "Date: Thu, 01 Jan 2026 00:00:00 +0000\r\nMessage-ID: <c17@example.org>\r\nMIME-Version: 1.0\r\n\r\n")
    streams = {
        "__properties_version1.0": b"\0" * 32,
        "__substg1.0_0037001F": "Report".encode("utf-16-le"),
        "__substg1.0_007D001F": hdr.encode("utf-16-le"),
        "__substg1.0_10130102": doc.encode("utf-8"),
    }
    if params.get("plain_too"):         # the text/plain alternative next to the HTML body (PidTagBody); HTML is preferred
        streams["__substg1.0_1000001F"] = "plain alternative".encode("utf-16-le")
    return cfb.make_cfb(streams, tree=params.get("tree", "balanced"))


def render_epub(doc: str, params: dict) -> bytes:
    """Minimal EPUB: mimetype, META-INF/container.xml, OPF with spine, one chapter (+ optional clean second chapter)."""
    import io
    import zipfile

    xhtml = params.get("media", "xhtml") == "xhtml"
    ext = "xhtml" if xhtml else "html"
    mt = "application/xhtml+xml" if xhtml else "text/html"
    d = params.get("dir", "OEBPS/")
    second = params.get("second")
    before = params.get("before")        # a chapter in front of the judged one (spine order: ch0, ch1, ch2)
    items = f'<item id="c1" href="ch1.{ext}" media-type="{mt}"/>'
    refs = '<itemref idref="c1"/>'
    if before:
        items = f'<item id="c0" href="ch0.{ext}" media-type="{mt}"/>' + items
        refs = '<itemref idref="c0"/>' + refs
    if second:
        items += f'<item id="c2" href="ch2.{ext}" media-type="{mt}"/>'
        refs += '<itemref idref="c2"/>'
    opf = ('<?xml version="1.0" encoding="UTF-8"?>\n<package xmlns="http://www.idpf.org/2007/opf" version="3.0" unique-identifier="id">'
           '<metadata xmlns:dc="http://purl.org/dc/elements/1.1/"><dc:identifier id="id">urn:uuid:0</dc:identifier>'
           '<dc:title>Book</dc:title><dc:language>en</dc:language></metadata>'
           f'<manifest>{items}</manifest><spine>{refs}</spine></package>')
    container = ('<?xml version="1.0" encoding="UTF-8"?>\n<container version="1.0" xmlns="urn:oasis:names:tc:opendocument:xmlns:container">'
                 f'<rootfiles><rootfile full-path="{d}content.opf" media-type="application/oebps-package+xml"/></rootfiles></container>')
    bio = io.BytesIO()
    comp = zipfile.ZIP_DEFLATED if params.get("deflate", True) else zipfile.ZIP_STORED
    with zipfile.ZipFile(bio, "w") as z:
        z.writestr(zipfile.ZipInfo("mimetype"), "application/epub+zip", compress_type=zipfile.ZIP_STORED)
        z.writestr("META-INF/container.xml", container, compress_type=comp)
        z.writestr(f"{d}content.opf", opf, compress_type=comp)
        if before:
            z.writestr(f"{d}ch0.{ext}", before.encode("utf-8"), compress_type=comp)
        z.writestr(f"{d}ch1.{ext}", doc.encode("utf-8"), compress_type=comp)
        if second:
            z.writestr(f"{d}ch2.{ext}", second.encode("utf-8"), compress_type=comp)
    return bio.getvalue()


def is_wellformed_xml(doc: str) -> bool:
    from xml.etree import ElementTree as ET
    try:
        ET.fromstring(re.sub(r"<!DOCTYPE[^>]*>", "", doc).encode("utf-8"))
        return True
    except Exception:
        return False
