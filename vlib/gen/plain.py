"""Plain-text family (txt, csv, tsv, md, json) with ground truth: the decoded text must come back verbatim."""
from __future__ import annotations

import json
import random

from .expect import Expect
from .tokens import Tokens

PLAIN_FEATURES = {
    "cp1252-nonascii": "cp1252-encoded text with accented letters, no BOM (twin: same encoding, ASCII only)",
    "utf8-nonascii-no-bom": "valid UTF-8 text with accented letters, no BOM (twin: ASCII only)",
    "utf8-bom-nonascii": "UTF-8 with BOM and accented letters (twin: ASCII only)",
    "utf16-bom-nonascii": "UTF-16 with BOM and accented letters (twin: ASCII only)",
    "utf16-no-bom": "UTF-16-LE ASCII text without BOM (twin: with BOM)",
}
_ENC = {"cp1252-nonascii": "cp1252", "utf8-nonascii-no-bom": "utf-8", "utf8-bom-nonascii": "utf-8-sig", "utf16-bom-nonascii": "utf-16"}


def _build(fmt):
    def build(seed: int, feature: str | None = None, twin: bool = False):
        rng = random.Random(f"{fmt}:{seed}")
        tk = Tokens()
        exp = Expect(fmt)
        exp.unit_mode = "exact"
        exp.n_units = 1
        exp.join_equality = True
        if feature:
            exp.features.add(feature if not twin else feature + "#twin")
        pay = [""]     # clean cases are ASCII (with or without BOM): detection of non-ASCII text is statistical, see the risky features
        if feature in _ENC and not twin:
            pay = [" é", " ü", " ß", " à la carte déjà vu", " €"]
        elif feature in _ENC:
            pay = [" e", " u", " ss", " a la carte deja vu", " EUR"]
        bom_enc = rng.choice([None, None, "utf-8-sig", "utf-16"]) if feature is None else None
        lines = []
        n = rng.randint(2, 12)
        if fmt in ("csv", "tsv"):
            sep = "," if fmt == "csv" else "\t"
            cols = rng.randint(2, 5)
            for _ in range(n):
                lines.append(sep.join(exp.text(tk.new("c"), 0) + rng.choice(pay) for _ in range(cols)))
            text = "\n".join(lines) + "\n"
        elif fmt == "json":
            obj = {exp.text(tk.new("b"), 0): [exp.text(tk.new("b"), 0) + rng.choice(pay) for _ in range(rng.randint(1, 3))] for _ in range(n)}
            text = json.dumps(obj, ensure_ascii=False, indent=1)
            exp.seq = [t for t in __import__("re").findall(r"q[a-z]\d{5}z", text)]
        elif fmt == "md":
            for _ in range(n):
                k = rng.random()
                if k < 0.2:
                    lines.append("# " + " ".join(exp.text(tk.new("h"), 0, True) for _ in range(rng.randint(1, 3))))
                elif k < 0.4:
                    lines.append("- " + " ".join(exp.text(tk.new("l"), 0) for _ in range(rng.randint(1, 3))))
                else:
                    lines.append(" ".join(exp.text(tk.new("b"), 0) for _ in range(rng.randint(1, 5))) + rng.choice(pay))
                if rng.random() < 0.3:
                    lines.append("")
            text = "\n".join(lines) + "\n"
        else:
            for _ in range(n):
                lines.append(" ".join(exp.text(tk.new("b"), 0) for _ in range(rng.randint(1, 6))) + rng.choice(pay))
                if rng.random() < 0.2:
                    lines.append("")
            text = rng.choice(["\n", "\r\n"]).join(lines) + "\n"
        exp.verbatim = text
        if feature in _ENC:
            data = text.encode(_ENC[feature])
        elif feature == "utf16-no-bom":
            data = (b"\xff\xfe" if twin else b"") + text.encode("utf-16-le")
        else:
            data = text.encode(bom_enc or "ascii")
        return data, exp
    return build


BUILDERS = {fmt: (_build(fmt), PLAIN_FEATURES, fmt, "." + fmt) for fmt in ("txt", "csv", "tsv", "md", "json")}
