"""Independent 7z archive *writer* (there is no 7z binary or py7zr in the sandbox).

Layouts: coders Copy / LZMA / LZMA2; solid (one folder, many sub-streams), one folder per file, mixed;
empty files and directories (EmptyStream/EmptyFile/attributes); entries flagged as having data although
no stream exists for them (hostile); AES coder id declared; optional encoded (LZMA-compressed) header.
Written from the 7z format description (7zFormat.txt), not from the repository's reader.
"""
from __future__ import annotations

import lzma
import struct
import zlib

COPY = b"\x00"
LZMA = b"\x03\x01\x01"
LZMA2 = b"\x21"
AES = b"\x06\xf1\x07\x01"


def num(n: int) -> bytes:
    """7z variable-length number: k leading one-bits in the first byte announce k extra (little-endian) bytes."""
    for extra in range(0, 8):
        if n < (1 << (7 + 7 * extra)):
            first = ((0xFF << (8 - extra)) & 0xFF) | (n >> (8 * extra))
            return bytes([first]) + (n & ((1 << (8 * extra)) - 1)).to_bytes(extra, "little")
    return b"\xff" + n.to_bytes(8, "little")


def bitvec(bits) -> bytes:
    out = bytearray()
    cur, mask = 0, 0x80
    for b in bits:
        if b:
            cur |= mask
        mask >>= 1
        if mask == 0:
            out.append(cur)
            cur, mask = 0, 0x80
    if mask != 0x80:
        out.append(cur)
    return bytes(out)


def lzma2_dict_sizes(max_prop: int = 30) -> list[int]:
    """The dictionary sizes an LZMA2 property byte can express: p -> (2 | (p & 1)) << (p // 2 + 11), i.e. 4 KiB, 6 KiB, 8 KiB, 12 KiB, ...
    (even p: 2^n; odd p: 3 * 2^n - what 7-Zip writes for -md=3m / 6m / 96m and when it shrinks the dictionary to the input size)."""
    return [(2 | (p & 1)) << (p // 2 + 11) for p in range(max_prop + 1)]


def lzma2_prop(dict_size: int) -> int:
    """Property byte of the smallest expressible dictionary >= dict_size."""
    for p, d in enumerate(lzma2_dict_sizes(40)):
        if d >= dict_size:
            return p
    raise ValueError(dict_size)


def _encode(coder: bytes, data: bytes, dict_size: int | None = None, declared_dict: int | None = None):
    """-> (packed bytes, coder properties or None).  ``dict_size``: dictionary the encoder really uses *and* declares (LZMA: any 32-bit
    value; LZMA2: rounded up to the next expressible size); default 64 KiB.  ``declared_dict``: the size written into the coder properties
    when it is larger than the one used (what `7z -mx=9` declares for small inputs: a decoder with a larger window decodes the same bytes)."""
    if coder == COPY:
        return data, None
    if coder == LZMA:
        dict_size = dict_size or 1 << 16
        packed = lzma.compress(data, format=lzma.FORMAT_RAW, filters=[{"id": lzma.FILTER_LZMA1, "dict_size": dict_size, "lc": 3, "lp": 0, "pb": 2}])
        return packed, bytes([0x5D]) + struct.pack("<I", max(dict_size, declared_dict or 0))
    if coder == LZMA2:
        prop = lzma2_prop(dict_size or 1 << 16)
        packed = lzma.compress(data, format=lzma.FORMAT_RAW, filters=[{"id": lzma.FILTER_LZMA2, "dict_size": lzma2_dict_sizes(40)[prop]}])
        return packed, bytes([max(prop, lzma2_prop(declared_dict)) if declared_dict else prop])
    if coder == AES:
        return data, bytes([0x13, 0x00])    # declared only: content is not really encrypted
    raise ValueError(coder)


def _folder_record(coder: bytes, props: bytes | None) -> bytes:
    flags = len(coder) | (0x20 if props is not None else 0)
    out = num(1) + bytes([flags]) + coder
    if props is not None:
        out += num(len(props)) + props
    return out


def _streams_info(pack_pos: int, folders: list[dict], with_crc: bool, substreams: bool = True) -> bytes:
    """folders: [{"coder", "props", "packed", "files": [bytes...] }]"""
    out = bytearray()
    out += b"\x06" + num(pack_pos) + num(len(folders)) + b"\x09" + b"".join(num(len(f["packed"])) for f in folders) + b"\x00"
    out += b"\x07" + b"\x0b" + num(len(folders)) + b"\x00" + b"".join(_folder_record(f["coder"], f["props"]) for f in folders)
    sizes_of = lambda f: f.get("sizes") or [len(x) for x in f["files"]]     # noqa: E731  (declared sizes may be forged)
    out += b"\x0c" + b"".join(num(sum(sizes_of(f))) for f in folders)
    if with_crc:
        out += b"\x0a\x01" + b"".join(struct.pack("<I", zlib.crc32(b"".join(f["files"])) & 0xFFFFFFFF) for f in folders)
    out += b"\x00"
    if not substreams:
        return bytes(out)
    # SubStreamsInfo (always present for the main streams)
    out += b"\x08"
    if any(len(f["files"]) != 1 for f in folders):
        out += b"\x0d" + b"".join(num(len(f["files"])) for f in folders)
        sizes = b"".join(num(n) for f in folders for n in sizes_of(f)[:-1])
        if sizes:
            out += b"\x09" + sizes
    if with_crc:
        allfiles = [x for f in folders for x in f["files"]]
        if any(len(f["files"]) != 1 for f in folders):
            out += b"\x0a\x01" + b"".join(struct.pack("<I", zlib.crc32(x) & 0xFFFFFFFF) for x in allfiles)
    out += b"\x00"
    return bytes(out)


def make_7z(entries: list[dict], *, coder: bytes = LZMA, layout: str = "solid", with_crc: bool = True, with_attrs: bool = True,
            encoded_header: bool = False, mixed_coders: list[bytes] | None = None, header_coder: bytes = LZMA,
            dict_size: int | None = None, with_substreams: bool = True, bare_empty: bool = False, declared_dict: int | None = None) -> bytes:
    """entries: [{"name": str, "data": bytes | None (directory), "empty_stream": optional override, "phantom": bool, "attr": optional int,
                 "declared_size": optional int}]

    ``declared_size``: the size the header lists for the entry (folder unpack size / sub-stream size) instead of the real length of its
    data (hostile: the coder produces more, or less, than the listing says; pass with_crc=False, the digests are those of the real data).
    ``with_substreams=False``: no SubStreamsInfo section for the main streams (legal only with one file per folder; hostile otherwise).
    ``dict_size``: LZMA / LZMA2 dictionary size used and declared by every data folder (see _encode).

    ``phantom``: the entry is *not* flagged as empty stream although no data stream exists for it.
    ``attr``: Windows attribute word written for the entry instead of the default (0x10 for directories, 0x20 for files), e.g.
    0x10 on an entry that owns a data stream, 0x20 on an entry without one, 0x8000 | unix mode << 16 as p7zip writes it.
    layout: "solid" (one folder holding all non-empty files) | "per-file" (one folder each) | "pairs" (two files per folder)
    """
    if bare_empty and not entries:
        # what 7-Zip itself writes for an archive without any entry: the 32-byte signature header only (next header offset, size and CRC all 0)
        start = struct.pack("<QQI", 0, 0, 0)
        return b"7z\xbc\xaf\x27\x1c" + b"\x00\x04" + struct.pack("<I", zlib.crc32(start) & 0xFFFFFFFF) + start
    with_data = [e for e in entries if e.get("data") and not e.get("phantom")]
    groups: list[list[dict]] = []
    if layout == "solid":
        groups = [with_data] if with_data else []
    elif layout == "per-file":
        groups = [[e] for e in with_data]
    elif layout == "pairs":
        groups = [with_data[i:i + 2] for i in range(0, len(with_data), 2)]
    else:
        raise ValueError(layout)
    folders = []
    for gi, g in enumerate(groups):
        c = mixed_coders[gi % len(mixed_coders)] if mixed_coders else coder
        raw = b"".join(e["data"] for e in g)
        packed, props = _encode(c, raw, dict_size, declared_dict)
        folders.append({"coder": c, "props": props, "packed": packed, "files": [e["data"] for e in g],
                        "sizes": [e["declared_size"] if e.get("declared_size") is not None else len(e["data"]) for e in g]})
    packed_all = b"".join(f["packed"] for f in folders)
    header = bytearray(b"\x01")
    if folders:
        header += b"\x04" + _streams_info(0, folders, with_crc, substreams=with_substreams) + b"\x00"
    # FilesInfo
    n = len(entries)
    fi = bytearray(b"\x05" + num(n))
    empty = [bool((e.get("data") in (None, b"")) and not e.get("phantom")) if "empty_stream" not in e else bool(e["empty_stream"]) for e in entries]
    if any(empty):
        v = bitvec(empty)
        fi += b"\x0e" + num(len(v)) + v
        ef = [e.get("data") == b"" for e, em in zip(entries, empty) if em]
        if any(ef):
            v = bitvec(ef)
            fi += b"\x0f" + num(len(v)) + v
    names = b"\x00" + b"".join(e["name"].encode("utf-16-le", "surrogatepass") + b"\x00\x00" for e in entries)
    fi += b"\x11" + num(len(names)) + names
    if with_attrs:
        attrs = b"\x01\x00" + b"".join(struct.pack("<I", (e["attr"] & 0xFFFFFFFF) if e.get("attr") is not None else (0x10 if e.get("data") is None and not e.get("phantom") else 0x20)) for e in entries)
        fi += b"\x15" + num(len(attrs)) + attrs
    fi += b"\x00"
    header += fi + b"\x00"
    header = bytes(header)
    if encoded_header:
        hp, hprops = _encode(header_coder, header, None, declared_dict)
        hf = [{"coder": header_coder, "props": hprops, "packed": hp, "files": [header]}]
        # encoded header = PackInfo + UnpackInfo only (no SubStreamsInfo)
        enc = b"\x17" + _streams_info(len(packed_all), hf, with_crc=True, substreams=False) + b"\x00"
        body = packed_all + hp
        next_header = enc
    else:
        body = packed_all
        next_header = header
    start = struct.pack("<QQI", len(body), len(next_header), zlib.crc32(next_header) & 0xFFFFFFFF)
    sig = b"7z\xbc\xaf\x27\x1c" + b"\x00\x04" + struct.pack("<I", zlib.crc32(start) & 0xFFFFFFFF) + start
    return sig + body + next_header
