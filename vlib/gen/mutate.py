"""Mutators: byte-level, ZIP-container-aware, text/markup-aware.  All deterministic in (data, seed, op)."""
from __future__ import annotations

import io
import random
import re
import struct
import zipfile

BYTE_OPS = ["truncate", "truncate_tail", "bitflip", "byteset", "zero", "splice", "dup", "insert", "numbers", "head_only", "empty",
            "append_junk", "stamp_twice", "copy_block", "picture_half_written", "jpeg_segment_length"]


def _stamps(rng):
    """Small self-contained blobs that scanners look for (the same picture pasted twice, signatures, markers)."""
    import struct as _s
    dib = _s.pack("<IiiHHIIiiII", 40, 2, 2, 1, 24, 0, 16, 2835, 2835, 0, 0) + bytes([1, 2, 3, 4, 5, 6, 0, 0, 7, 8, 9, 10, 11, 12, 0, 0])
    from . import images
    return [dib, images.png(2, 2, 7), images.jpeg(3, 3, 7), b"\x89PNG\r\n\x1a\n", b"\xff\xd8\xff\xe0", b"PK\x03\x04", b"%PDF-1.4", b"From a@b Mon Jan  1 00:00:00 2024\n",
            b"\x0f\x00\xe8\x03\xff\xff\xff\x7f", b"Chapter 1 ", b"\x2f\x00\x06\x00\x01\x00\x01\x00\x01\x00"]

ZIP_OPS = ["xml_truncate", "xml_unclose", "xml_numbers", "xml_entity", "xml_deep", "xml_garbage", "member_drop", "member_empty",
           "member_swap", "cd_forge", "xml_attr_drop", "xml_dup_children", "nonutf8", "stored_overlong", "xml_huge_count", "xml_lengths", "member_names_ctrl", "bomb_member_named", "xml_href_climb"]
TEXT_OPS = ["deep_braces", "deep_tags", "ctrl_numbers", "unbalanced", "long_line", "nul_bytes", "random_ctrl"]

EXTREMES = [b"0", b"-1", b"-6", b"-20", b"1", b"255", b"65535", b"65536", b"2147483647", b"2147483648", b"4294967295", b"4294967296", b"9999999999999999999", b"-2147483649", b"1e309", b"NaN", b"", b"9" * 400]


def byte_mutate(data: bytes, op: str, rng: random.Random, other: bytes = b"") -> bytes:
    n = len(data)
    if op == "empty":
        return b""
    if n == 0:
        return data
    if op == "truncate":
        return data[: rng.randrange(n)]
    if op == "truncate_tail":
        return data[: max(0, n - rng.choice([1, 2, 4, 8, 16, 22, 64, 512]))]
    if op == "head_only":
        return data[: rng.choice([1, 2, 4, 8, 16, 30, 64, 128, 512, 520])]
    if op == "append_junk":
        return data + bytes(rng.randrange(256) for _ in range(rng.choice([1, 3, 7, 64, 512]))) if rng.random() < 0.5 else data + bytes(rng.choice([1, 7, 511, 512]))
    if op == "stamp_twice":
        # overwrite two places with the same blob (sizes and offsets of everything else stay intact)
        b = bytearray(data)
        blob = rng.choice(_stamps(rng))
        if n > 2 * len(blob) + 1600:
            for _ in range(rng.choice([2, 2, 3])):
                i = rng.randrange(1536, n - len(blob))
                b[i:i + len(blob)] = blob
        return bytes(b)
    if op == "copy_block":
        ln = rng.choice([4096, 16384, 65536])
        i = rng.randrange(n)
        blk = data[i:i + ln]
        j = rng.randrange(n)
        return data[:j] + blk + data[j:] if rng.random() < 0.5 else data + blk
    if op == "jpeg_segment_length":
        # one segment header of an embedded JPEG declares a length no segment can have (0, 1) or one that runs past the picture; which
        # picture, which segment and which value is enumerated by the seed (first draw of the generator), not drawn at random
        k = rng.randrange(1 << 16) if not isinstance(other, int) else other
        spots = [m.start() for m in re.finditer(rb"\xff\xd8\xff[\xe0-\xef\xdb\xfe]", data)]
        if not spots:
            return byte_mutate(data, "zero", rng)
        b = bytearray(data)
        value = [b"\x00\x00", b"\x00\x01", b"\xff\xff"][k % 3]
        hops = (k // 3) % 3
        j = spots[(k // 9) % len(spots)] + 2
        while hops and j + 4 <= n and b[j] == 0xFF and b[j + 1] not in (0xD8, 0xD9, 0xDA):
            j += 2 + struct.unpack(">H", data[j + 2:j + 4])[0]
            hops -= 1
        if j + 4 <= n and b[j] == 0xFF:
            b[j + 2:j + 4] = value
        return bytes(b)
    if op == "picture_half_written":
        # an embedded picture that was only partly written: its signature and first segment / chunk are intact, the rest of the picture
        # (up to and including its end marker) is filler; every length, offset and record header around it stays valid
        b = bytearray(data)
        spots = [(m.start(), "jpeg") for m in re.finditer(rb"\xff\xd8\xff[\xe0-\xef\xdb]", data)] + [(m.start(), "png") for m in re.finditer(rb"\x89PNG\r\n\x1a\n", data)]
        if not spots:
            return byte_mutate(data, "zero", rng)
        i, kind = rng.choice(spots)
        fill = rng.choice([0, 0, 0x55, 0x20])
        if kind == "jpeg" and rng.random() < 0.4:
            # or: one segment header of the picture declares a length no segment can have (0, 1) or one that runs past the picture
            j = i + 2
            hops = rng.randint(0, 3)
            while hops and j + 4 <= n and b[j] == 0xFF and b[j + 1] not in (0xD8, 0xD9, 0xDA):
                j += 2 + struct.unpack(">H", data[j + 2:j + 4])[0]
                hops -= 1
            if j + 4 <= n and b[j] == 0xFF:
                b[j + 2:j + 4] = rng.choice([b"\x00\x00", b"\x00\x01", b"\x00\x02", b"\xff\xff"])
            return bytes(b)
        if kind == "jpeg":
            seg_len = struct.unpack(">H", data[i + 4:i + 6])[0] if i + 6 <= n else 0
            start = min(n, i + 4 + seg_len) if rng.random() < 0.7 else min(n, i + 4 + seg_len + rng.randrange(0, 64))
            end = data.find(b"\xff\xd9", start)
            end = n if end < 0 else end + 2
        else:
            start = min(n, i + 8 + 25)            # signature + IHDR chunk
            end = data.find(b"IEND", start)
            end = n if end < 0 else end + 8
        b[start:end] = bytes([fill]) * (end - start)
        return bytes(b)
    b = bytearray(data)
    if op == "bitflip":
        for _ in range(rng.choice([1, 1, 2, 4, 16, 64])):
            i = rng.randrange(n)
            b[i] ^= 1 << rng.randrange(8)
        return bytes(b)
    if op == "byteset":
        for _ in range(rng.choice([1, 2, 8, 32])):
            b[rng.randrange(n)] = rng.choice([0, 0xFF, 0x7F, 0x80, 0x20, 0x0A, ord("{"), ord("<"), ord("\\")])
        return bytes(b)
    if op == "zero":
        i = rng.randrange(n)
        ln = rng.choice([4, 16, 64, 512, 4096])
        b[i:i + ln] = bytes(min(ln, n - i))
        return bytes(b)
    if op == "splice":
        if not other:
            other = data[::-1]
        i, j = rng.randrange(n), rng.randrange(len(other))
        return data[:i] + other[j:]
    if op == "dup":
        i = rng.randrange(n)
        ln = rng.choice([1, 16, 512, 4096])
        return data[:i] + data[i:i + ln] * rng.choice([2, 3, 8]) + data[i + ln:]
    if op == "insert":
        i = rng.randrange(n)
        junk = bytes(rng.randrange(256) for _ in range(rng.choice([1, 4, 64])))
        return data[:i] + junk + data[i:]
    if op == "numbers":
        # overwrite a little-endian u32/u16 at a random (aligned) position with an extreme value
        for _ in range(rng.choice([1, 2, 4])):
            i = (rng.randrange(n) // 4) * 4
            v = rng.choice([0, 1, 0x7FFFFFFF, 0x80000000, 0xFFFFFFFF, 0xFFFFFFFE, 0x10000, 0xFFFF])
            b[i:i + 4] = struct.pack("<I", v)[: max(0, min(4, n - i))]
        return bytes(b)
    raise ValueError(op)


def _rezip(members: list[tuple[zipfile.ZipInfo, bytes]], rng, stored=False) -> bytes:
    bio = io.BytesIO()
    with zipfile.ZipFile(bio, "w") as z:
        for zi, data in members:
            ni = zipfile.ZipInfo(zi.filename, date_time=zi.date_time)
            ni.external_attr = zi.external_attr
            z.writestr(ni, data, zipfile.ZIP_STORED if (stored or zi.filename == "mimetype") else zipfile.ZIP_DEFLATED)
    return bio.getvalue()


def zip_mutate(data: bytes, op: str, rng: random.Random) -> bytes:
    """Keep the ZIP shell valid, damage the content.  Falls back to the input when it is not a ZIP."""
    try:
        zf = zipfile.ZipFile(io.BytesIO(data))
        members = [(zi, zf.read(zi)) for zi in zf.infolist()]
    except Exception:
        return data
    if not members:
        return data
    xml_idx = [i for i, (zi, d) in enumerate(members) if d[:5] in (b"<?xml", b"<pack", b"<offi", b"<html") or zi.filename.endswith((".xml", ".rels", ".xhtml", ".opf", ".html"))]
    pick = rng.choice(xml_idx) if xml_idx else rng.randrange(len(members))
    zi, d = members[pick]
    if op == "member_drop":
        del members[pick]
    elif op == "member_empty":
        members[pick] = (zi, b"")
    elif op == "member_swap":
        j = rng.randrange(len(members))
        members[pick], members[j] = (members[pick][0], members[j][1]), (members[j][0], members[pick][1])
    elif op == "cd_forge":
        raw = bytearray(_rezip(members, rng))
        # forge sizes in one central directory header (signature PK\1\2): compressed size @20, uncompressed @24
        pos = [m.start() for m in re.finditer(b"PK\x01\x02", bytes(raw))]
        if pos:
            p = rng.choice(pos)
            off = rng.choice([20, 24])
            raw[p + off:p + off + 4] = struct.pack("<I", rng.choice([0, 1, 0xFFFFFFFF, 0x7FFFFFFF, 10**9]))
        return bytes(raw)
    elif op == "stored_overlong":
        # one member stored (not deflated) and declared longer than the bytes that are there: reading it runs through the
        # central directory into the physical end of the file (zipfile raises a bare EOFError, a failure without a message)
        raw = bytearray(_rezip(members, rng, stored=True))
        pos = [m.start() for m in re.finditer(b"PK\x01\x02", bytes(raw))]
        if pos:
            p = pos[pick] if pick < len(pos) else rng.choice(pos)
            size = struct.unpack("<I", raw[p + 20:p + 24])[0] + rng.choice([1, 64, len(raw), 10 * len(raw)])
            raw[p + 20:p + 24] = struct.pack("<I", size)
            raw[p + 24:p + 28] = struct.pack("<I", size)
        return bytes(raw)
    elif op == "member_names_ctrl":
        # member names are free-form byte strings: line breaks, escape sequences and blanks in them are legal (whatever quotes a name
        # in a message inherits them)
        for _ in range(rng.choice([1, 2, 3])):
            k = rng.randrange(len(members))
            zi_, d_ = members[k]
            if zi_.filename in ("mimetype", "[Content_Types].xml"):
                continue
            cut = rng.randrange(len(zi_.filename) + 1)
            nz = zipfile.ZipInfo(zi_.filename[:cut] + rng.choice(["\n", "\r\n", "\nsharepoint2text: ", "\x1b[2J", "\t", " \n "]) + zi_.filename[cut:], date_time=zi_.date_time)
            nz.external_attr = zi_.external_attr
            members[k] = (nz, d_)
    elif op == "bomb_member_named":
        # one more member that trips the bomb guard by itself (megabytes of zeros), under a name with a line break in it
        name = rng.choice(["media/big\nsecond line.bin", "Pictures/a\r\nb.png", "x\n", "word/media/image\n1.png"])
        members.append((zipfile.ZipInfo(name, date_time=(2024, 1, 2, 3, 4, 6)), bytes(rng.choice([1, 2, 4]) << 20)))
    elif op == "xml_href_climb":
        # references between parts (relationship targets, manifest hrefs, xlink:href, src) that climb out of the container, are absolute,
        # empty or very long: resolving them must end, whatever they resolve to
        pat = re.compile(rb'((?:Target|href|xlink:href|full-path|src)=")([^"]*)(")')
        for i in xml_idx:
            zi_, d_ = members[i]
            hits = list(pat.finditer(d_))
            if not hits:
                continue
            chosen = {m.start() for m in rng.sample(hits, min(len(hits), rng.choice([1, 2, 5])))}

            def repl(m):
                if m.start() not in chosen:
                    return m.group(0)
                v = m.group(2)
                nv = rng.choice([b"../" + v, b"../../" + v, b"../../../x/" + v, b"/" + v, b"/../" + v, b"./" + v, b"//" + v, b"", b"../" * 60 + v, v + b"/..", b"a/../../" + v, b"..", b"."])
                return m.group(1) + nv + m.group(3)
            members[i] = (zi_, pat.sub(repl, d_))
    elif op == "xml_lengths":
        # every length / extent in the part ("2.5cm", "914400" EMU in cx/cy, "12pt") takes one extreme value: sizes and positions that
        # no arithmetic on them can represent (hundreds of digits), zero, negative
        ext = rng.choice([b"9" * 400, b"9" * 400 + b".5", b"0", b"-1", b"1" + b"0" * 30, b"", b".", b" "])      # (also: no number at all before the unit)
        for i in xml_idx:
            zi_, d_ = members[i]
            new = re.sub(rb'(?<=")-?(?:\d+(?:\.\d*)?|\.\d+)(?=(?:cm|mm|in|pt|pc|px)")', ext, d_)
            new = re.sub(rb'(?<= c[xy]=")\d+(?=")', ext, new)
            members[i] = (zi_, new)
    elif op == "xml_huge_count":
        # repeat / count attributes far beyond memory: the expansion fails at once with a bare MemoryError
        huge = rng.choice([b"1152921504606846976", b"4611686018427387904", b"9223372036854775807"])
        cands = [(b"<text:p", b'<text:s text:c="' + huge + b'"/>'), (b"<table:table-cell", None), (b"<table:table-row", None)]
        new = d
        for needle, payload in cands:
            i = d.find(needle)
            if i < 0:
                continue
            j = d.find(b">", i)
            if j < 0:
                continue
            if payload is not None and d[j - 1:j] != b"/":
                new = d[:j + 1] + payload + d[j + 1:]
            else:
                attr = b' table:number-columns-repeated="' if needle == b"<table:table-cell" else b' table:number-rows-repeated="'
                new = d[:i + len(needle)] + attr + huge + b'"' + d[i + len(needle):]
            if rng.random() < 0.6:
                break
        if new is d:
            new = text_mutate(d, "xml_numbers", rng)
        members[pick] = (zi, new)
    else:
        members[pick] = (zi, text_mutate(d, op, rng))
    return _rezip(members, rng)


def text_mutate(d: bytes, op: str, rng: random.Random) -> bytes:
    n = len(d)
    if op == "xml_truncate":
        return d[: rng.randrange(max(1, n))]
    if op == "xml_unclose":
        closes = [m.span() for m in re.finditer(rb"</[^>]+>", d)]
        if not closes:
            return d
        for _ in range(rng.choice([1, 2, 5])):
            a, b = rng.choice(closes)
            d = d[:a] + b" " * (b - a) + d[b:]
        return d
    if op == "xml_numbers":
        # whole numbers in attribute values and element text, and the numeric part of lengths ("2.5cm", "12pt", "50%")
        nums = [m.span() for m in re.finditer(rb'(?<=")-?\d+(?:\.\d+)?(?=(?:cm|mm|in|pt|pc|px|%)?")|(?<=>)-?\d+(?=<)', d)]
        if not nums:
            return d
        out, last = [], 0
        chosen = sorted(rng.sample(nums, min(len(nums), rng.choice([1, 2, 8]))))
        for a, b in chosen:
            out += [d[last:a], rng.choice(EXTREMES)]
            last = b
        out.append(d[last:])
        return b"".join(out)
    if op == "xml_entity":
        dtd = rng.choice([
            b'<!DOCTYPE x [<!ENTITY a "aaaaaaaaaa"><!ENTITY b "&a;&a;&a;&a;&a;&a;&a;&a;"><!ENTITY c "&b;&b;&b;&b;&b;&b;&b;&b;">]>',
            b'<!DOCTYPE x [<!ENTITY xxe SYSTEM "file:///etc/hostname">]>',
            b'<!DOCTYPE x SYSTEM "http://127.0.0.1:9/x.dtd">',
        ])
        m = re.search(rb"\?>", d)
        pos = m.end() if m else 0
        body = d[pos:]
        body = re.sub(rb">([^<>]{3,})<", lambda mm: b">&c;&xxe;<" if rng.random() < 0.05 else mm.group(0), body, count=50)
        return d[:pos] + dtd + body
    if op == "xml_deep":
        depth = rng.choice([200, 2000, 20000])
        m = re.search(rb"<([A-Za-z:]+)[ >]", d[40:]) if n > 40 else None
        tag = m.group(1) if m else b"a"
        i = rng.randrange(max(1, n))
        gt = d.find(b">", i)
        if gt < 0:
            return d
        return d[:gt + 1] + (b"<" + tag + b">") * depth + b"x" + (b"</" + tag + b">") * depth + d[gt + 1:]
    if op == "xml_garbage":
        i = rng.randrange(max(1, n))
        return d[:i] + bytes(rng.randrange(256) for _ in range(rng.choice([1, 8, 64]))) + d[i:]
    if op == "xml_attr_drop":
        attrs = [m.span() for m in re.finditer(rb'\s[\w:.-]+="[^"]*"', d)]
        if not attrs:
            return d
        for a, b in sorted(rng.sample(attrs, min(len(attrs), rng.choice([1, 3, 10]))), reverse=True):
            d = d[:a] + d[b:]
        return d
    if op == "xml_dup_children":
        els = [m.span() for m in re.finditer(rb"<([\w:]+)[^<>]*>[^<>]*</\1>", d)]
        if not els:
            return d
        a, b = rng.choice(els)
        return d[:b] + d[a:b] * rng.choice([1, 10, 500]) + d[b:]
    if op == "nonutf8":
        i = rng.randrange(max(1, n))
        return d[:i] + rng.choice([b"\xff\xfe", b"\xc3\x28", b"\xed\xa0\x80", b"\x00", b"\xf8\x88\x80\x80\x80"]) + d[i:]
    if op == "deep_braces":
        depth = rng.choice([100, 2000, 50000])
        i = rng.randrange(max(1, n))
        return d[:i] + b"{" * depth + b"x" + b"}" * depth + d[i:]
    if op == "deep_tags":
        depth = rng.choice([100, 2000, 50000])
        i = rng.randrange(max(1, n))
        t = rng.choice([b"div", b"ul><li", b"table><tr><td", b"b", b"noscript"])
        return d[:i] + (b"<" + t + b">") * depth + b"x" + d[i:]
    if op == "ctrl_numbers":
        return re.sub(rb"(\\[a-z]+)(-?\d+)", lambda m: m.group(1) + (rng.choice(EXTREMES) if rng.random() < 0.1 else m.group(2)), d)
    if op == "unbalanced":
        b = bytearray(d)
        for _ in range(rng.choice([1, 5, 50])):
            i = rng.randrange(max(1, n))
            b[i:i + 1] = rng.choice([b"{", b"}", b"<", b">", b"\\", b"&", b'"', b"<!--", b"]]>", b"<![CDATA[", b"\\u", b"\\'", b"\\bin99999 "])
        return bytes(b)
    if op == "long_line":
        i = rng.randrange(max(1, n))
        return d[:i] + rng.choice([b"A", b" ", b"\\par", b"<br>", b"From ", b"\n"]) * rng.choice([1000, 100000]) + d[i:]
    if op == "nul_bytes":
        return d.replace(b" ", b"\x00", rng.choice([1, 10, 1000]))
    if op == "random_ctrl":
        words = [b"\\page", b"\\trowd", b"\\row", b"\\cell", b"{\\pict ", b"{\\header ", b"{\\*\\x ", b"\\u-1?", b"\\u99999999?", b"\\'zz", b"{\\info", b"{\\field{\\*\\fldinst{HYPERLINK \"", b"\\bin5 ", b"{\\footnote ",
                 # counts and positions that a format gives as signed numbers, with values no writer produces: negative byte counts
                 # inside skipped groups, negative skip counts, negative cell edges
                 b"\\bin-6 ", b"\\bin-20", b"{\\pict\\wmetafile8\\bin-9}", b"{\\object\\objemb{\\*\\objdata\\bin-7 }}", b"{\\*\\shppict{\\pict\\bin-12 }}",
                 b"\\uc-1 ", b"\\uc-7\\u8364 ", b"\\cellx-1", b"\\trgaph-5", b"\\fs-24 ", b"\\li-720 "]
        b = d
        for _ in range(rng.choice([1, 5, 40])):
            i = rng.randrange(max(1, len(b)))
            b = b[:i] + rng.choice(words) + b[i:]
        return b
    return d
