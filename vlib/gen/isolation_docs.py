"""Hand-written documents for the isolation / purity checks (C06, C15): *groups* of inputs whose members share a sub-key
(an escape, a part name, a relationship id, a string index, a style id, a member name) but differ in the context that
decides what the sub-key means (code page, package, relationship target, string table ...), and inputs whose optional
parts are absent or only referenced (dangling relationships).  A memo table, class attribute or shared default object
that forgets the context makes one member's result show up in another's; a single member extracted alone never shows it.

A *source* is JSON: ["iso", family, variant] (+ ["iso", "drop", <corpus source>, [part names]] = a corpus document with
optional package parts removed).  Every builder is bit-deterministic (fixed ZIP timestamps, no randomness) and records
its own ground truth: ``truth(src)`` -> {"has": [tokens the result must show], "not": [tokens it must not show]} where
tokens of the *other* members of the group are listed under "not".

Nothing here imports the library under test.
"""
from __future__ import annotations

import functools
import io
import json
import zipfile

# ------------------------------------------------------------------------------------------------------------ helpers
_FIXED = (2001, 2, 3, 4, 5, 6)


def _zip(members: list[tuple[str, bytes]], stored_first: str | None = None) -> bytes:
    buf = io.BytesIO()
    with zipfile.ZipFile(buf, "w") as z:
        for name, data in members:
            zi = zipfile.ZipInfo(name, date_time=_FIXED)
            zi.compress_type = zipfile.ZIP_STORED if name == stored_first else zipfile.ZIP_DEFLATED
            zi.external_attr = 0o644 << 16
            z.writestr(zi, data)
    return buf.getvalue()


def _x(s: str) -> str:
    return s.replace("&", "&amp;").replace("<", "&lt;").replace(">", "&gt;").replace('"', "&quot;")


def _png(seed: int) -> bytes:
    """A valid 2x2 RGB PNG whose pixel data depends on ``seed``."""
    import struct
    import zlib

    def chunk(t, d):
        c = struct.pack(">I", len(d)) + t + d
        return c + struct.pack(">I", zlib.crc32(t + d) & 0xFFFFFFFF)
    rows = b"".join(b"\x00" + bytes([(seed * 37 + r * 11 + i * 5) % 256 for i in range(6)]) for r in range(2))
    return b"\x89PNG\r\n\x1a\n" + chunk(b"IHDR", struct.pack(">IIBBBBB", 2, 2, 8, 2, 0, 0, 0)) + chunk(b"IDAT", zlib.compress(rows, 9)) + chunk(b"IEND", b"")


# ------------------------------------------------------------------------------------------------------------ RTF: code page context
# single-byte Windows / DOS / Mac code pages Python knows; None = no \ansicpg control word at all (cp1252 by default)
RTF_CODEPAGES = [None, 1252, 1251, 1250, 1253, 1254, 1257, 1255, 1256, 1258, 874, 437, 850, 852, 866]
# escapes every member of the group carries: the same hex digits, a different character per code page
RTF_SHARED_BYTES = [0xE9, 0xC0, 0xF1, 0xA3, 0xDF, 0xB5, 0xD7, 0x8A, 0xFE, 0xE0]


def _rtf_codec(cp):
    return "cp1252" if cp is None else f"cp{cp}"


def rtf_codepage(cp, form: str = "plain") -> tuple[bytes, dict]:
    tag = f"isortf{'none' if cp is None else cp}{form}"
    esc = "".join("\\'%02x" % b for b in RTF_SHARED_BYTES)
    head = "{\\rtf1\\ansi" + ("" if cp is None else f"\\ansicpg{cp}") + "\\deff0{\\fonttbl{\\f0 Arial;}}"
    if form == "hf":
        # every header / footer destination RTF knows (all pages, left, right, first), each with its own text
        groups_ = "".join(f"{{\\{d} \\pard {d}{tag} text\\par}}" for d in ("header", "headerl", "headerr", "headerf", "footer", "footerl", "footerr", "footerf"))
        body = f"{groups_}\\pard {tag} {esc} end{tag}\\par"
    elif form == "plain":
        body = f"\\pard {tag} {esc} end{tag}\\par"
    elif form == "upper":          # same escapes spelled with upper-case hex digits
        body = f"\\pard {tag} {esc.upper().replace('X', 'x')} end{tag}\\par"
    else:                          # escapes inside a header group and a table cell as well
        body = f"{{\\header \\pard hd{tag} {esc}\\par}}\\pard {tag} {esc} end{tag}\\par\\trowd\\cellx3000 {esc} c{tag}\\cell\\row"
    data = (head + body + "}").encode("ascii")
    expect = ""
    for b in RTF_SHARED_BYTES:
        try:
            expect += bytes([b]).decode(_rtf_codec(cp))
        except UnicodeDecodeError:
            expect += chr(b)
    return data, {"has": [tag, "end" + tag], "decoded": expect}


# ------------------------------------------------------------------------------------------------------------ DOCX
_CT_DOCX = ('<?xml version="1.0" encoding="UTF-8" standalone="yes"?><Types xmlns="http://schemas.openxmlformats.org/package/2006/content-types">'
            '<Default Extension="rels" ContentType="application/vnd.openxmlformats-package.relationships+xml"/><Default Extension="xml" ContentType="application/xml"/>'
            '<Default Extension="png" ContentType="image/png"/>'
            '<Override PartName="/word/document.xml" ContentType="application/vnd.openxmlformats-officedocument.wordprocessingml.document.main+xml"/>%s</Types>')
_RELS_ROOT = ('<?xml version="1.0" encoding="UTF-8" standalone="yes"?><Relationships xmlns="http://schemas.openxmlformats.org/package/2006/relationships">'
              '<Relationship Id="rId1" Type="http://schemas.openxmlformats.org/officeDocument/2006/relationships/officeDocument" Target="%s"/>%s</Relationships>')
_W = 'xmlns:w="http://schemas.openxmlformats.org/wordprocessingml/2006/main" xmlns:r="http://schemas.openxmlformats.org/officeDocument/2006/relationships"'
_REL = "http://schemas.openxmlformats.org/officeDocument/2006/relationships/"
_CORE = ('<?xml version="1.0" encoding="UTF-8" standalone="yes"?><cp:coreProperties xmlns:cp="http://schemas.openxmlformats.org/package/2006/metadata/core-properties" '
         'xmlns:dc="http://purl.org/dc/elements/1.1/" xmlns:dcterms="http://purl.org/dc/terms/" xmlns:xsi="http://www.w3.org/2001/XMLSchema-instance">'
         '<dc:title>%s</dc:title><dc:creator>%s</dc:creator><dcterms:created xsi:type="dcterms:W3CDTF">2020-01-02T03:04:05Z</dcterms:created>'
         '<dcterms:modified xsi:type="dcterms:W3CDTF">2021-02-03T04:05:06Z</dcterms:modified></cp:coreProperties>')
_APP = ('<?xml version="1.0" encoding="UTF-8" standalone="yes"?><Properties xmlns="http://schemas.openxmlformats.org/officeDocument/2006/extended-properties">'
        '<Application>verif %s</Application><Pages>1</Pages></Properties>')


def _wp(text: str, style: str | None = None) -> str:
    ppr = f'<w:pPr><w:pStyle w:val="{style}"/></w:pPr>' if style else ""
    return f'<w:p>{ppr}<w:r><w:t xml:space="preserve">{_x(text)}</w:t></w:r></w:p>'


def docx(variant: str) -> tuple[bytes, dict]:
    """Variants share part names / relationship ids / style ids / note ids and differ in what they stand for.

    hfA, hfB      header1.xml + footer1.xml present, different text          (same part name, other package)
    hfdangling    document.xml.rels names header1.xml / footer1.xml, the parts are absent (tolerated: no header/footer)
    hfnone        no header / footer relationship at all                      (control)
    hfother       header2.xml / footer2.xml under the same relationship ids
    nometa        no docProps/core.xml, no docProps/app.xml, no word/styles.xml
    notesA/notesB same footnote / comment ids, different text; notesdangling: references without the parts
    imgA/imgB     same rId + media name, different image bytes; imgdangling: relationship to an absent media part
    styA/styB     same style ids, different style names
    """
    tag = "isodocx" + variant
    has, absent = [tag], []
    parts: dict[str, bytes] = {}
    rels = []
    ct_extra = ""
    body = [_wp(f"{tag} body text")]
    sect = ""
    meta = True
    styles = {"Heading1": "heading 1", "IsoStyle": "Iso Style Base"}
    if variant.startswith("hf") and variant != "hfnone":
        n = "2" if variant == "hfother" else "1"
        rels.append(f'<Relationship Id="rId7" Type="{_REL}header" Target="header{n}.xml"/>')
        rels.append(f'<Relationship Id="rId8" Type="{_REL}footer" Target="footer{n}.xml"/>')
        sect = '<w:sectPr><w:headerReference w:type="default" r:id="rId7"/><w:footerReference w:type="default" r:id="rId8"/></w:sectPr>'
        if variant != "hfdangling":
            parts[f"word/header{n}.xml"] = f'<?xml version="1.0" encoding="UTF-8" standalone="yes"?><w:hdr {_W}>{_wp("hdr" + tag)}</w:hdr>'.encode()
            parts[f"word/footer{n}.xml"] = f'<?xml version="1.0" encoding="UTF-8" standalone="yes"?><w:ftr {_W}>{_wp("ftr" + tag)}</w:ftr>'.encode()
            has += ["hdr" + tag, "ftr" + tag]
            ct_extra += (f'<Override PartName="/word/header{n}.xml" ContentType="application/vnd.openxmlformats-officedocument.wordprocessingml.header+xml"/>'
                         f'<Override PartName="/word/footer{n}.xml" ContentType="application/vnd.openxmlformats-officedocument.wordprocessingml.footer+xml"/>')
    if variant == "nometa":
        meta = False
        styles = None
    if variant.startswith("notes"):
        body.append(f'<w:p><w:r><w:t>{tag} note anchor</w:t></w:r><w:r><w:footnoteReference w:id="2"/></w:r>'
                    f'<w:r><w:commentReference w:id="0"/></w:r></w:p>')
        rels.append(f'<Relationship Id="rId11" Type="{_REL}footnotes" Target="footnotes.xml"/>')
        rels.append(f'<Relationship Id="rId12" Type="{_REL}comments" Target="comments.xml"/>')
        if variant != "notesdangling":
            parts["word/footnotes.xml"] = (f'<?xml version="1.0" encoding="UTF-8" standalone="yes"?><w:footnotes {_W}><w:footnote w:id="2">{_wp("fn" + tag)}</w:footnote></w:footnotes>').encode()
            parts["word/comments.xml"] = (f'<?xml version="1.0" encoding="UTF-8" standalone="yes"?><w:comments {_W}><w:comment w:id="0" w:author="au{tag}" w:date="2020-01-01T00:00:00Z">'
                                          f'{_wp("cm" + tag)}</w:comment></w:comments>').encode()
            has += ["fn" + tag, "cm" + tag]
    if variant.startswith("img"):
        rels.append(f'<Relationship Id="rId5" Type="{_REL}image" Target="{"media/Image1.Png" if variant == "imgcase" else "media/image1.png"}"/>')
        body.append('<w:p><w:r><w:drawing><wp:inline xmlns:wp="http://schemas.openxmlformats.org/drawingml/2006/wordprocessingDrawing"><wp:extent cx="19050" cy="19050"/>'
                    f'<wp:docPr id="1" name="Picture 1" descr="alt{tag}"/><a:graphic xmlns:a="http://schemas.openxmlformats.org/drawingml/2006/main">'
                    '<a:graphicData uri="http://schemas.openxmlformats.org/drawingml/2006/picture"><pic:pic xmlns:pic="http://schemas.openxmlformats.org/drawingml/2006/picture">'
                    '<pic:nvPicPr><pic:cNvPr id="1" name="image1.png"/><pic:cNvPicPr/></pic:nvPicPr><pic:blipFill><a:blip r:embed="rId5"/></pic:blipFill><pic:spPr/></pic:pic>'
                    '</a:graphicData></a:graphic></wp:inline></w:drawing></w:r></w:p>')
        if variant == "imgcase":
            # the target is no exact member; several members equal it when case is ignored (legal in a ZIP), each another picture
            for j, n_ in enumerate(("word/media/image1.png", "word/media/IMAGE1.PNG", "word/Media/image1.png", "word/media/Image1.PNG", "WORD/media/image1.png")):
                parts[n_] = _png(20 + j)
        elif variant != "imgdangling":
            parts["word/media/image1.png"] = _png(1 if variant == "imgA" else 2)
    stored = None
    if variant.startswith("omml"):
        # formulas (OMML): 'ommlgood-X' = g(x) = (a+b)/2 written with the bracket pair X; 'ommlfail-X' = a malformed radical whose operand is the lone
        # opening bracket X, followed by nesting deeper than any recursion limit: the conversion of this formula cannot finish
        M = 'xmlns:m="http://schemas.openxmlformats.org/officeDocument/2006/math"'
        o, c = {"paren": "()", "bracket": "[]", "brace": "{}"}[variant.split("-")[1]]

        def mr(t):
            return f"<m:r><m:t>{_x(t)}</m:t></m:r>"
        if variant.startswith("ommlgood"):
            f_ = f"{mr('g' + o + 'x' + c + '=')}<m:f><m:num>{mr(o + 'a+b' + c)}</m:num><m:den>{mr('2')}</m:den></m:f>"
        else:
            n_ = 2500
            f_ = (f'<m:rad><m:radPr><m:degHide m:val="1"/></m:radPr><m:deg/><m:e>{mr(o)}</m:e></m:rad>' + "<m:d><m:e>" * n_ + mr("x") + "</m:e></m:d>" * n_ + mr(c))
            stored = "word/document.xml"        # (deep nesting deflates so well that the container bomb guard would refuse the package first)
        body.append(f"<w:p><m:oMath {M}>{f_}</m:oMath></w:p>")
    if variant.startswith("sty"):
        styles = {"Heading1": "heading 1", "IsoStyle": "Iso Style " + variant}
        body.append(_wp(f"{tag} styled", "IsoStyle"))
    body.append(_wp(f"end{tag}"))
    has.append("end" + tag)
    doc = f'<?xml version="1.0" encoding="UTF-8" standalone="yes"?><w:document {_W}><w:body>{"".join(body)}{sect}</w:body></w:document>'
    members = [("[Content_Types].xml", (_CT_DOCX % ct_extra).encode())]
    root_extra = ""
    if meta:
        root_extra = ('<Relationship Id="rId2" Type="http://schemas.openxmlformats.org/package/2006/relationships/metadata/core-properties" Target="docProps/core.xml"/>'
                      f'<Relationship Id="rId3" Type="{_REL}extended-properties" Target="docProps/app.xml"/>')
    members.append(("_rels/.rels", (_RELS_ROOT % ("word/document.xml", root_extra)).encode()))
    members.append(("word/document.xml", doc.encode()))
    if styles is not None:
        rels.append(f'<Relationship Id="rId9" Type="{_REL}styles" Target="styles.xml"/>')
        sx = "".join(f'<w:style w:type="paragraph" w:styleId="{k}"><w:name w:val="{v}"/></w:style>' for k, v in styles.items())
        members.append(("word/styles.xml", f'<?xml version="1.0" encoding="UTF-8" standalone="yes"?><w:styles {_W}>{sx}</w:styles>'.encode()))
    members.append(("word/_rels/document.xml.rels", ('<?xml version="1.0" encoding="UTF-8" standalone="yes"?><Relationships xmlns="http://schemas.openxmlformats.org/package/2006/relationships">'
                                                      + "".join(rels) + "</Relationships>").encode()))
    for k in sorted(parts):
        members.append((k, parts[k]))
    if meta:
        members.append(("docProps/core.xml", (_CORE % ("title " + tag, "creator " + tag)).encode()))
        members.append(("docProps/app.xml", (_APP % tag).encode()))
    return _zip(members, stored_first=stored), {"has": has if not variant.startswith("ommlfail") else [], "not": absent}


# ------------------------------------------------------------------------------------------------------------ XLSX
def xlsx(variant: str) -> tuple[bytes, dict]:
    """sstA / sstB: the same shared-string indexes, different string tables; sstinline: inline strings, no table;
    nometa: no docProps at all, no styles.xml."""
    tag = "isoxlsx" + variant
    strings = [f"{tag} s{i}" for i in range(4)]
    meta = variant != "nometa"
    if variant == "sstinline":
        cells = "".join(f'<c r="{c}1" t="inlineStr"><is><t>{_x(s)}</t></is></c>' for c, s in zip("ABCD", strings))
    else:
        cells = "".join(f'<c r="{c}1" t="s"><v>{i}</v></c>' for i, c in enumerate("ABCD"))
    # values that compare equal across types (1.0 == 1 == True, 0.0 == 0 == False, and their texts): one workbook per spelling, and a mixed one
    def vrow(r, kinds):
        spell = {"double": [("n", "1.0"), ("n", "0.0"), ("n", "1E0"), ("n", "-0.0"), ("n", "2.50"), ("n", "1e2")], "bool": [("b", "1"), ("b", "0"), ("b", "1"), ("b", "0"), ("b", "1"), ("b", "0")],
                 "int": [("n", "1"), ("n", "0"), ("n", "1"), ("n", "-0"), ("n", "2"), ("n", "100")], "text": [("t", "1"), ("t", "0.0"), ("t", "True"), ("t", "FALSE"), ("t", "1.0"), ("t", "100")]}
        out = []
        for i, (t, v) in enumerate(x for k in kinds for x in spell[k]):
            ref = f"{chr(65 + i % 24)}{r}"
            out.append(f'<c r="{ref}" t="inlineStr"><is><t>{v}</t></is></c>' if t == "t" else (f'<c r="{ref}" t="b"><v>{v}</v></c>' if t == "b" else f'<c r="{ref}"><v>{v}</v></c>'))
        return f'<row r="{r}">{"".join(out)}</row>'
    extra_rows = ""
    if variant.startswith("vals-"):
        kinds = ["double", "bool", "int", "text"] if variant == "vals-mixed" else [variant[5:]]
        extra_rows = "".join(vrow(3 + j, [k]) for j, k in enumerate(kinds))
    sheet = ('<?xml version="1.0" encoding="UTF-8" standalone="yes"?><worksheet xmlns="http://schemas.openxmlformats.org/spreadsheetml/2006/main">'
             f'<sheetData><row r="1">{cells}</row><row r="2"><c r="A2"><v>42</v></c></row>{extra_rows}</sheetData></worksheet>')
    wb = ('<?xml version="1.0" encoding="UTF-8" standalone="yes"?><workbook xmlns="http://schemas.openxmlformats.org/spreadsheetml/2006/main" '
          'xmlns:r="http://schemas.openxmlformats.org/officeDocument/2006/relationships"><sheets><sheet name="Sheet1" sheetId="1" r:id="rId1"/></sheets></workbook>')
    rels = [f'<Relationship Id="rId1" Type="{_REL}worksheet" Target="worksheets/sheet1.xml"/>']
    ct = ('<Override PartName="/xl/workbook.xml" ContentType="application/vnd.openxmlformats-officedocument.spreadsheetml.sheet.main+xml"/>'
          '<Override PartName="/xl/worksheets/sheet1.xml" ContentType="application/vnd.openxmlformats-officedocument.spreadsheetml.worksheet+xml"/>')
    members = []
    if variant != "sstinline":
        rels.append(f'<Relationship Id="rId2" Type="{_REL}sharedStrings" Target="sharedStrings.xml"/>')
        ct += '<Override PartName="/xl/sharedStrings.xml" ContentType="application/vnd.openxmlformats-officedocument.spreadsheetml.sharedStrings+xml"/>'
        sst = ('<?xml version="1.0" encoding="UTF-8" standalone="yes"?><sst xmlns="http://schemas.openxmlformats.org/spreadsheetml/2006/main" count="4" uniqueCount="4">'
               + "".join(f"<si><t>{_x(s)}</t></si>" for s in strings) + "</sst>")
        members.append(("xl/sharedStrings.xml", sst.encode()))
    if meta:
        rels.append(f'<Relationship Id="rId3" Type="{_REL}styles" Target="styles.xml"/>')
        ct += '<Override PartName="/xl/styles.xml" ContentType="application/vnd.openxmlformats-officedocument.spreadsheetml.styles+xml"/>'
        members.append(("xl/styles.xml", b'<?xml version="1.0" encoding="UTF-8" standalone="yes"?><styleSheet xmlns="http://schemas.openxmlformats.org/spreadsheetml/2006/main">'
                                         b'<fonts count="1"><font><sz val="11"/><name val="Calibri"/></font></fonts><fills count="1"><fill><patternFill patternType="none"/></fill></fills>'
                                         b'<borders count="1"><border/></borders><cellStyleXfs count="1"><xf/></cellStyleXfs><cellXfs count="1"><xf/></cellXfs></styleSheet>'))
    ctypes = ('<?xml version="1.0" encoding="UTF-8" standalone="yes"?><Types xmlns="http://schemas.openxmlformats.org/package/2006/content-types">'
              '<Default Extension="rels" ContentType="application/vnd.openxmlformats-package.relationships+xml"/><Default Extension="xml" ContentType="application/xml"/>'
              + ct + ('<Override PartName="/docProps/core.xml" ContentType="application/vnd.openxmlformats-package.core-properties+xml"/>' if meta else "") + "</Types>")
    root_extra = ('<Relationship Id="rId2" Type="http://schemas.openxmlformats.org/package/2006/relationships/metadata/core-properties" Target="docProps/core.xml"/>' if meta else "")
    out = [("[Content_Types].xml", ctypes.encode()), ("_rels/.rels", (_RELS_ROOT % ("xl/workbook.xml", root_extra)).encode()), ("xl/workbook.xml", wb.encode()),
           ("xl/_rels/workbook.xml.rels", ('<?xml version="1.0" encoding="UTF-8" standalone="yes"?><Relationships xmlns="http://schemas.openxmlformats.org/package/2006/relationships">'
                                           + "".join(rels) + "</Relationships>").encode()),
           ("xl/worksheets/sheet1.xml", sheet.encode())] + members
    if meta:
        out.append(("docProps/core.xml", (_CORE % ("title " + tag, "creator " + tag)).encode()))
    return _zip(out), {"has": strings, "not": []}


# ------------------------------------------------------------------------------------------------------------ PPTX
def pptx(variant: str) -> tuple[bytes, dict]:
    """imgA / imgB: slide1 embeds rId2 -> ../media/image1.png with different bytes; imgdangling: the media part is absent;
    cmA / cmB: slide 1 has a comment part of the same name (comment1.xml) with different text; cmdangling: only the relationship;
    nometa: no docProps."""
    tag = "isopptx" + variant
    has = [tag]
    P = ('xmlns:a="http://schemas.openxmlformats.org/drawingml/2006/main" xmlns:r="http://schemas.openxmlformats.org/officeDocument/2006/relationships" '
         'xmlns:p="http://schemas.openxmlformats.org/presentationml/2006/main"')

    def sp(i, text, ph="body"):
        return (f'<p:sp><p:nvSpPr><p:cNvPr id="{i}" name="Shape {i}"/><p:cNvSpPr/><p:nvPr><p:ph type="{ph}"/></p:nvPr></p:nvSpPr><p:spPr/>'
                f'<p:txBody><a:bodyPr/><a:p><a:r><a:t>{_x(text)}</a:t></a:r></a:p></p:txBody></p:sp>')
    shapes = sp(2, f"{tag} title", "title") + sp(3, f"{tag} body end{tag}")
    has.append("end" + tag)
    srels = []
    extra: list[tuple[str, bytes]] = []
    ct = ""
    if variant.startswith("img"):
        shapes += (f'<p:pic><p:nvPicPr><p:cNvPr id="4" name="Picture 4" descr="alt{tag}"/><p:cNvPicPr/><p:nvPr/></p:nvPicPr><p:blipFill><a:blip r:embed="rId2"/></p:blipFill>'
                   '<p:spPr><a:xfrm><a:off x="0" y="0"/><a:ext cx="19050" cy="19050"/></a:xfrm></p:spPr></p:pic>')
        srels.append(f'<Relationship Id="rId2" Type="{_REL}image" Target="{"../media/Image1.Png" if variant == "imgcase" else "../media/image1.png"}"/>')
        if variant == "imgcase":
            for j, n_ in enumerate(("ppt/media/image1.png", "ppt/media/IMAGE1.PNG", "ppt/Media/image1.png", "ppt/media/Image1.PNG", "PPT/media/image1.png")):
                extra.append((n_, _png(30 + j)))
        elif variant != "imgdangling":
            extra.append(("ppt/media/image1.png", _png(3 if variant == "imgA" else 4)))
    if variant.startswith("cm"):
        srels.append(f'<Relationship Id="rId3" Type="{_REL}comments" Target="../comments/comment1.xml"/>')
        if variant != "cmdangling":
            extra.append(("ppt/comments/comment1.xml", (f'<?xml version="1.0" encoding="UTF-8" standalone="yes"?><p:cmLst {P}><p:cm authorId="0" dt="2020-01-01T00:00:00.000" idx="1">'
                                                        f'<p:pos x="10" y="10"/><p:text>cm{tag}</p:text></p:cm></p:cmLst>').encode()))
            ct += '<Override PartName="/ppt/comments/comment1.xml" ContentType="application/vnd.openxmlformats-officedocument.presentationml.comments+xml"/>'
            has.append("cm" + tag)
    slide = (f'<?xml version="1.0" encoding="UTF-8" standalone="yes"?><p:sld {P}><p:cSld><p:spTree><p:nvGrpSpPr><p:cNvPr id="1" name=""/><p:cNvGrpSpPr/><p:nvPr/></p:nvGrpSpPr>'
             f'<p:grpSpPr/>{shapes}</p:spTree></p:cSld></p:sld>')
    pres = (f'<?xml version="1.0" encoding="UTF-8" standalone="yes"?><p:presentation {P}><p:sldIdLst><p:sldId id="256" r:id="rId2"/></p:sldIdLst>'
            '<p:sldSz cx="9144000" cy="6858000"/></p:presentation>')
    meta = variant != "nometa"
    ctypes = ('<?xml version="1.0" encoding="UTF-8" standalone="yes"?><Types xmlns="http://schemas.openxmlformats.org/package/2006/content-types">'
              '<Default Extension="rels" ContentType="application/vnd.openxmlformats-package.relationships+xml"/><Default Extension="xml" ContentType="application/xml"/>'
              '<Default Extension="png" ContentType="image/png"/>'
              '<Override PartName="/ppt/presentation.xml" ContentType="application/vnd.openxmlformats-officedocument.presentationml.presentation.main+xml"/>'
              '<Override PartName="/ppt/slides/slide1.xml" ContentType="application/vnd.openxmlformats-officedocument.presentationml.slide+xml"/>' + ct + "</Types>")
    root_extra = ('<Relationship Id="rId2" Type="http://schemas.openxmlformats.org/package/2006/relationships/metadata/core-properties" Target="docProps/core.xml"/>' if meta else "")
    members = [("[Content_Types].xml", ctypes.encode()), ("_rels/.rels", (_RELS_ROOT % ("ppt/presentation.xml", root_extra)).encode()),
               ("ppt/presentation.xml", pres.encode()),
               ("ppt/_rels/presentation.xml.rels", ('<?xml version="1.0" encoding="UTF-8" standalone="yes"?><Relationships xmlns="http://schemas.openxmlformats.org/package/2006/relationships">'
                                                    f'<Relationship Id="rId2" Type="{_REL}slide" Target="slides/slide1.xml"/></Relationships>').encode()),
               ("ppt/slides/slide1.xml", slide.encode()),
               ("ppt/slides/_rels/slide1.xml.rels", ('<?xml version="1.0" encoding="UTF-8" standalone="yes"?><Relationships xmlns="http://schemas.openxmlformats.org/package/2006/relationships">'
                                                     + "".join(srels) + "</Relationships>").encode())] + extra
    if meta:
        members.append(("docProps/core.xml", (_CORE % ("title " + tag, "creator " + tag)).encode()))
    return _zip(members), {"has": has, "not": []}


# ------------------------------------------------------------------------------------------------------------ OpenDocument
_ODF_NS = ('xmlns:office="urn:oasis:names:tc:opendocument:xmlns:office:1.0" xmlns:text="urn:oasis:names:tc:opendocument:xmlns:text:1.0" '
           'xmlns:table="urn:oasis:names:tc:opendocument:xmlns:table:1.0" xmlns:draw="urn:oasis:names:tc:opendocument:xmlns:drawing:1.0" '
           'xmlns:style="urn:oasis:names:tc:opendocument:xmlns:style:1.0" xmlns:fo="urn:oasis:names:tc:opendocument:xmlns:xsl-fo-compatible:1.0" '
           'xmlns:xlink="http://www.w3.org/1999/xlink" xmlns:dc="http://purl.org/dc/elements/1.1/" xmlns:meta="urn:oasis:names:tc:opendocument:xmlns:meta:1.0" '
           'xmlns:svg="urn:oasis:names:tc:opendocument:xmlns:svg-compatible:1.0" xmlns:presentation="urn:oasis:names:tc:opendocument:xmlns:presentation:1.0" '
           'xmlns:math="http://www.w3.org/1998/Math/MathML" office:version="1.2"')
ODF_MIME = {"odt": "application/vnd.oasis.opendocument.text", "ods": "application/vnd.oasis.opendocument.spreadsheet",
            "odp": "application/vnd.oasis.opendocument.presentation", "odg": "application/vnd.oasis.opendocument.graphics",
            "odf": "application/vnd.oasis.opendocument.formula"}
ODF_META_FORMS = ["meta", "nometa", "emptymeta", "nostyles", "bare", "imgA", "imgB", "imgdangling"]


def odf(kind: str, form: str) -> tuple[bytes, dict]:
    """OpenDocument package of ``kind`` whose optional parts are present or not.

    meta        meta.xml with <office:meta> (title, creator, dates), styles.xml
    nometa      no meta.xml (the part is optional)
    emptymeta   meta.xml present but without <office:meta>
    nostyles    meta.xml, no styles.xml
    bare        only mimetype, manifest and content.xml
    imgA/imgB   Pictures/img1.png under the same name, different bytes; imgdangling: referenced, absent
    """
    tag = f"iso{kind}{form}"
    has = [tag, "end" + tag]
    img = ""
    pics: list[tuple[str, bytes]] = []
    if form.startswith("img"):
        img = ('<draw:frame draw:name="Image1" svg:width="1cm" svg:height="1cm" text:anchor-type="as-char"><draw:image xlink:href="Pictures/img1.png" xlink:type="simple"/>'
               f'<svg:title>alt{tag}</svg:title></draw:frame>')
        if form != "imgdangling":
            pics.append(("Pictures/img1.png", _png(5 if form == "imgA" else 6)))
    auto = ('<office:automatic-styles><style:style style:name="P1" style:family="paragraph"><style:text-properties fo:font-weight="bold"/></style:style>'
            '<style:style style:name="T1" style:family="text"><style:text-properties fo:font-style="italic"/></style:style></office:automatic-styles>')
    if kind == "odt":
        body = (f'<office:text><text:h text:outline-level="1">{tag} heading</text:h><text:p text:style-name="P1">{tag} para <text:span text:style-name="T1">span{tag}</text:span></text:p>'
                f'<text:p>{img}</text:p><text:p>end{tag}</text:p></office:text>')
    elif kind == "ods":
        body = (f'<office:spreadsheet><table:table table:name="Sheet{tag}"><table:table-row><table:table-cell office:value-type="string"><text:p>{tag}</text:p></table:table-cell>'
                f'<table:table-cell office:value-type="string"><text:p>end{tag}</text:p></table:table-cell></table:table-row><table:shapes>{img}</table:shapes></table:table></office:spreadsheet>')
        if not img:
            body = body.replace("<table:shapes></table:shapes>", "")
    elif kind == "odp":
        body = (f'<office:presentation><draw:page draw:name="page{tag}"><draw:frame presentation:class="title" svg:width="5cm" svg:height="1cm"><draw:text-box><text:p>{tag}</text:p></draw:text-box></draw:frame>'
                f'<draw:frame presentation:class="outline" svg:width="5cm" svg:height="1cm"><draw:text-box><text:p>end{tag}</text:p></draw:text-box></draw:frame>{img}</draw:page></office:presentation>')
    elif kind == "odg":
        body = (f'<office:drawing><draw:page draw:name="page{tag}"><draw:frame svg:width="5cm" svg:height="1cm"><draw:text-box><text:p>{tag}</text:p></draw:text-box></draw:frame>'
                f'<draw:frame svg:width="5cm" svg:height="1cm"><draw:text-box><text:p>end{tag}</text:p></draw:text-box></draw:frame>{img}</draw:page></office:drawing>')
    elif kind == "odf":
        body = None
    else:
        raise ValueError(kind)
    if kind == "odf":
        content = (f'<?xml version="1.0" encoding="UTF-8"?><math:math xmlns:math="http://www.w3.org/1998/Math/MathML"><math:semantics><math:mrow><math:mi>x</math:mi><math:mo>=</math:mo><math:mn>1</math:mn></math:mrow>'
                   f'<math:annotation math:encoding="StarMath 5.0">{tag} = end{tag}</math:annotation></math:semantics></math:math>')
    else:
        content = f'<?xml version="1.0" encoding="UTF-8"?><office:document-content {_ODF_NS}>{auto}<office:body>{body}</office:body></office:document-content>'
    members: list[tuple[str, bytes]] = [("mimetype", ODF_MIME[kind].encode()), ("content.xml", content.encode())]
    entries = ['<manifest:file-entry manifest:full-path="/" manifest:media-type="%s"/>' % ODF_MIME[kind],
               '<manifest:file-entry manifest:full-path="content.xml" manifest:media-type="text/xml"/>']
    with_meta = form not in ("nometa", "bare")
    with_styles = form not in ("nostyles", "bare")
    if with_styles:
        members.append(("styles.xml", (f'<?xml version="1.0" encoding="UTF-8"?><office:document-styles {_ODF_NS}><office:styles><style:style style:name="Standard" style:family="paragraph"/>'
                                       '</office:styles></office:document-styles>').encode()))
        entries.append('<manifest:file-entry manifest:full-path="styles.xml" manifest:media-type="text/xml"/>')
    if with_meta:
        inner = ("" if form == "emptymeta" else
                 f'<office:meta><dc:title>title {tag}</dc:title><dc:creator>creator {tag}</dc:creator><meta:creation-date>2020-01-02T03:04:05</meta:creation-date>'
                 f'<dc:date>2021-02-03T04:05:06</dc:date><meta:generator>verif {tag}</meta:generator></office:meta>')
        members.append(("meta.xml", f'<?xml version="1.0" encoding="UTF-8"?><office:document-meta {_ODF_NS}>{inner}</office:document-meta>'.encode()))
        entries.append('<manifest:file-entry manifest:full-path="meta.xml" manifest:media-type="text/xml"/>')
    for n, d in pics:
        members.append((n, d))
        entries.append(f'<manifest:file-entry manifest:full-path="{n}" manifest:media-type="image/png"/>')
    members.append(("META-INF/manifest.xml", ('<?xml version="1.0" encoding="UTF-8"?><manifest:manifest xmlns:manifest="urn:oasis:names:tc:opendocument:xmlns:manifest:1.0" manifest:version="1.2">'
                                              + "".join(entries) + "</manifest:manifest>").encode()))
    return _zip(members, stored_first="mimetype"), {"has": has, "not": [], "metadata_present": with_meta and form != "emptymeta"}


# ------------------------------------------------------------------------------------------------------------ EPUB
def epub(variant: str) -> tuple[bytes, dict]:
    """A / B: same manifest ids and hrefs (ch1.xhtml), different chapter text and title; nometa: <metadata/> empty, no nav/ncx."""
    tag = "isoepub" + variant
    md = "" if variant == "nometa" else (f"<dc:title>title {tag}</dc:title><dc:creator>creator {tag}</dc:creator><dc:language>en</dc:language>"
                                         f'<dc:identifier id="uid">urn:uuid:{tag}</dc:identifier>')
    opf = ('<?xml version="1.0" encoding="UTF-8"?><package xmlns="http://www.idpf.org/2007/opf" version="3.0" unique-identifier="uid">'
           f'<metadata xmlns:dc="http://purl.org/dc/elements/1.1/">{md}</metadata><manifest><item id="ch1" href="ch1.xhtml" media-type="application/xhtml+xml"/>'
           '<item id="ch2" href="ch2.xhtml" media-type="application/xhtml+xml"/></manifest><spine><itemref idref="ch1"/><itemref idref="ch2"/></spine></package>')

    def ch(n):
        return (f'<?xml version="1.0" encoding="UTF-8"?><html xmlns="http://www.w3.org/1999/xhtml"><head><title>c{n}{tag}</title></head><body><h1>h{n}{tag}</h1><p>p{n}{tag}</p></body></html>').encode()
    members = [("mimetype", b"application/epub+zip"),
               ("META-INF/container.xml", b'<?xml version="1.0"?><container version="1.0" xmlns="urn:oasis:names:tc:opendocument:xmlns:container"><rootfiles>'
                                          b'<rootfile full-path="OEBPS/content.opf" media-type="application/oebps-package+xml"/></rootfiles></container>'),
               ("OEBPS/content.opf", opf.encode()), ("OEBPS/ch1.xhtml", ch(1)), ("OEBPS/ch2.xhtml", ch(2))]
    return _zip(members, stored_first="mimetype"), {"has": ["p1" + tag, "p2" + tag], "not": []}


# ------------------------------------------------------------------------------------------------------------ several candidates for a "first match wins" choice
def _epub_pkg(tag: str, items: list[tuple[str, str, str, bytes]], spine: list[str], md: str, extra_attr: dict | None = None) -> bytes:
    """items: (id, href, media-type, data) in manifest order."""
    extra_attr = extra_attr or {}
    man = "".join(f'<item id="{i}" href="{h}" media-type="{m}"{extra_attr.get(i, "")}/>' for i, h, m, _ in items)
    opf = ('<?xml version="1.0" encoding="UTF-8"?><package xmlns="http://www.idpf.org/2007/opf" version="3.0" unique-identifier="uid">'
           f'<metadata xmlns:dc="http://purl.org/dc/elements/1.1/" xmlns:opf="http://www.idpf.org/2007/opf">{md}</metadata><manifest>{man}</manifest>'
           f'<spine>{"".join(f"""<itemref idref="{i}"/>""" for i in spine)}</spine></package>')
    members = [("mimetype", b"application/epub+zip"),
               ("META-INF/container.xml", b'<?xml version="1.0"?><container version="1.0" xmlns="urn:oasis:names:tc:opendocument:xmlns:container"><rootfiles>'
                                          b'<rootfile full-path="OEBPS/content.opf" media-type="application/oebps-package+xml"/></rootfiles></container>'),
               ("OEBPS/content.opf", opf.encode())]
    seen = set()
    for _i, h, _m, d in items:
        if h not in seen:
            seen.add(h)
            members.append(("OEBPS/" + h, d))
    return _zip(members, stored_first="mimetype")


def _xhtml(title: str, body: str) -> bytes:
    return (f'<?xml version="1.0" encoding="UTF-8"?><html xmlns="http://www.w3.org/1999/xhtml"><head><title>{title}</title></head><body>{body}</body></html>').encode()


def epub_multi(variant: str) -> tuple[bytes, dict]:
    """EPUB packages in which a "first one wins" choice has several candidates (the document order of the manifest / metadata decides):

    navs      five XHTML items whose path contains nav / toc, each with its own list of links (+ an NCX)
    navs2     the same candidates in another manifest order
    meta      three dc:title / dc:creator / dc:identifier / dc:language elements, two cover declarations
    dupid     two manifest items under one id (different hrefs), two ids for one href, a spine naming both
    covers    three image items that could be "the cover" (properties, meta name=cover, file name)
    """
    tag = "isoepubmulti" + variant
    X = "application/xhtml+xml"
    md = f'<dc:title>title {tag}</dc:title><dc:creator>creator {tag}</dc:creator><dc:language>en</dc:language><dc:identifier id="uid">urn:uuid:{tag}</dc:identifier>'
    ch = [("ch1", "ch1.xhtml", X, _xhtml("c1" + tag, f"<h1>h1{tag}</h1><p>p1{tag}</p>")), ("ch2", "ch2.xhtml", X, _xhtml("c2" + tag, f"<h1>h2{tag}</h1><p>p2{tag}</p>"))]
    has = ["p1" + tag, "p2" + tag]
    if variant in ("navs", "navs2"):
        def nav(name, n):
            links = "".join(f'<li><a href="ch{1 + (k % 2)}.xhtml#{name}{k}">{name} entry {k} {tag}</a></li>' for k in range(n))
            return _xhtml(name + tag, f'<nav xmlns:epub="http://www.idpf.org/2007/ops" epub:type="toc"><ol>{links}</ol></nav>')
        cands = [("nav", "nav.xhtml", X, nav("nav", 2)), ("toc", "toc.xhtml", X, nav("toc", 3)), ("navigation", "text/navigation.xhtml", X, nav("navigation", 4)),
                 ("protocols", "protocols.xhtml", X, nav("protocols", 5)), ("octocat", "octocat.xhtml", X, nav("octocat", 1))]
        if variant == "navs2":
            cands = cands[2:] + cands[:2]
        ncx = ('<?xml version="1.0" encoding="UTF-8"?><ncx xmlns="http://www.daisy.org/z3986/2005/ncx/" version="2005-1"><navMap><navPoint id="n1" playOrder="1"><navLabel><text>ncx entry '
               + tag + '</text></navLabel><content src="ch1.xhtml"/></navPoint></navMap></ncx>').encode()
        items = ch + cands + [("ncx", "toc.ncx", "application/x-dtbncx+xml", ncx)]
        return _epub_pkg(tag, items, ["ch1", "ch2", "protocols", "octocat"], md, {"nav": ' properties="nav"'}), {"has": has, "not": []}
    if variant == "meta":
        md = "".join(f'<dc:title>title{k} {tag}</dc:title><dc:creator>creator{k} {tag}</dc:creator><dc:identifier id="uid{k}">urn:uuid:{tag}{k}</dc:identifier><dc:language>{l}</dc:language>'
                     for k, l in enumerate(("en", "de", "fr"))) + '<meta name="cover" content="img1"/><meta name="cover" content="img2"/><dc:date>2020-01-02</dc:date><dc:date>2021-02-03</dc:date>'
        items = ch + [("img1", "img/a.png", "image/png", _png(7)), ("img2", "img/b.png", "image/png", _png(8))]
        return _epub_pkg(tag, items, ["ch1", "ch2"], md.replace('id="uid0"', 'id="uid"')), {"has": has, "not": []}
    if variant == "dupid":
        items = ch + [("ch2", "ch2b.xhtml", X, _xhtml("c2b" + tag, f"<p>p2b{tag}</p>")), ("ch3", "ch1.xhtml", X, ch[0][3]), ("nav", "nav.xhtml", X, _xhtml("n" + tag, f'<nav><ol><li><a href="ch1.xhtml">one {tag}</a></li></ol></nav>'))]
        return _epub_pkg(tag, items, ["ch1", "ch2", "ch3", "ch2"], md), {"has": ["p1" + tag], "not": []}
    if variant == "covers":
        md += '<meta name="cover" content="c2"/>'
        items = ch + [("c1", "img/cover.png", "image/png", _png(9)), ("c2", "img/front.png", "image/png", _png(10)), ("c3", "img/cover-image.png", "image/png", _png(11))]
        chx = ("ch0", "ch0.xhtml", X, _xhtml("c0" + tag, f'<p>p0{tag}</p><img src="img/cover.png" alt="a"/><img src="img/front.png" alt="b"/><img src="img/cover-image.png" alt="c"/>'))
        return _epub_pkg(tag, [chx] + items, ["ch0", "ch1", "ch2"], md, {"c3": ' properties="cover-image"'}), {"has": has, "not": []}
    raise ValueError(variant)


def html_multi(variant: str) -> tuple[bytes, dict]:
    """HTML with several candidates for title / charset / base / language (first one wins, in document order)."""
    tag = "isohtmlmulti" + variant
    if variant == "titles":
        head = f'<title>first {tag}</title><title>second {tag}</title><meta property="og:title" content="og {tag}"><meta name="title" content="meta {tag}">'
    elif variant == "metas":
        head = (f'<title>t {tag}</title><meta charset="utf-8"><meta charset="windows-1251"><meta http-equiv="Content-Type" content="text/html; charset=iso-8859-7">'
                f'<meta name="author" content="a1 {tag}"><meta name="author" content="a2 {tag}"><meta name="description" content="d1 {tag}"><meta name="description" content="d2 {tag}">'
                f'<meta name="keywords" content="k1,{tag}"><meta name="keywords" content="k2,{tag}"><base href="http://a.example/"><base href="http://b.example/">')
    else:
        head = f'<title>t {tag}</title>'
    raw = (f'<html lang="en" lang="de"><head>{head}</head><body><h1 id="x">h {tag}</h1><p id="x">{tag} café</p><p id="x">end{tag}</p></body></html>').encode("utf-8")
    return raw, {"has": [tag, "end" + tag], "not": []}


# ------------------------------------------------------------------------------------------------------------ markup that ends before it is closed
UNBALANCED_FORMS = ["nested-table-open", "table-cell-open", "list-open", "script-open", "style-open", "noscript-open", "comment-open", "title-open", "balanced"]


def _unbalanced_body(tag: str, form: str) -> str:
    """A content document: a well-formed table followed by text, then (unless balanced) a construct that is opened and never closed."""
    good = (f'<h1>h {tag}</h1><table><tr><td>a {tag}</td><td>b</td></tr><tr><td>c</td><td>d</td></tr></table><p>after table {tag}</p>'
            f'<ul><li>item {tag}</li></ul><p>end{tag}</p>')
    tail = {
        "nested-table-open": f"<table><tr><td>outer {tag}<table><tr><td>inner {tag}",
        "table-cell-open": f"<table><tr><td>cell {tag}",
        "list-open": f"<ol><li>one {tag}<ul><li>two {tag}",
        "script-open": f"<script>var s = '{tag}';",
        "style-open": f"<style>p {{ color: red }} /* {tag} */",
        "noscript-open": f"<noscript><p>ns {tag}",
        "comment-open": f"<!-- comment {tag}",
        "title-open": f"<title>late title {tag}",
        "balanced": "",
    }[form]
    return good + tail


def unbalanced(kind: str, form: str) -> tuple[bytes, dict]:
    """kind in epub / epub-last / html / mhtml.  'epub': [ch1 well-formed table + text, ch2 ends inside the unclosed construct (text/html, no end tags)];
    'epub-last': the unclosed chapter comes first and a well-formed chapter with a table follows it."""
    tag = f"isounb{kind.replace('-', '')}{form.replace('-', '')}"
    if kind in ("epub", "epub-last"):
        X = "application/xhtml+xml"
        good = _xhtml("g" + tag, _unbalanced_body(tag + "g", "balanced"))
        bad = ("<html><head><title>b" + tag + "</title></head><body>" + _unbalanced_body(tag + "b", form)).encode()
        md = f'<dc:title>title {tag}</dc:title><dc:language>en</dc:language><dc:identifier id="uid">urn:uuid:{tag}</dc:identifier>'
        items = [("good", "good.xhtml", X, good), ("bad", "bad.html", "text/html", bad)]
        spine = ["good", "bad"] if kind == "epub" else ["bad", "good"]
        return _epub_pkg(tag, items, spine, md), {"has": ["end" + tag + "g"], "not": []}
    body = _unbalanced_body(tag, form)
    if kind == "html":
        return ("<html><head><title>t" + tag + "</title></head><body>" + body).encode(), {"has": ["end" + tag], "not": []}
    if kind == "mhtml":
        raw = ("From: <Saved by verif>\r\nSubject: " + tag + "\r\nMIME-Version: 1.0\r\nContent-Type: multipart/related; type=\"text/html\"; boundary=\"----isoUNB\"\r\n\r\n"
               "------isoUNB\r\nContent-Type: text/html; charset=utf-8\r\nContent-Transfer-Encoding: 8bit\r\nContent-Location: http://iso.example/u.html\r\n\r\n"
               "<html><head><title>t" + tag + "</title></head><body>" + body + "\r\n------isoUNB--\r\n").encode("ascii")
        return raw, {"has": ["end" + tag], "not": []}
    raise ValueError(kind)


# ------------------------------------------------------------------------------------------------------------ PDF: one embedded font program, different glyphs used
# width / height of the digit glyphs of a common sans font in font units (2048 per em): a reader that has to guess which glyph is which digit
# (ToUnicode maps them to U+0000) can only go by the outlines
_DIGIT_BOX = {0: (956, 1497), 1: (540, 1472), 2: (971, 1472), 3: (960, 1498), 4: (1014, 1466), 5: (972, 1471), 6: (968, 1497), 7: (949, 1447), 8: (966, 1497), 9: (964, 1497)}


def _ttf(n: int = 30, salt: int = 0) -> bytes:
    """A minimal TrueType program (glyf / head / loca / maxp): glyph g has the bounding box of digit g % 10; ``salt`` changes bytes nobody reads."""
    import struct
    glyf, offs = b"", [0]
    for g in range(n):
        w, h = _DIGIT_BOX[g % 10] if g else (0, 0)
        glyf += struct.pack(">hhhhh", 1, 0, 0, w, h) + struct.pack(">H", salt)
        offs.append(len(glyf))
    loca = b"".join(struct.pack(">I", o) for o in offs)
    head = bytearray(54)
    struct.pack_into(">I", head, 0, 0x00010000)
    struct.pack_into(">I", head, 12, 0x5F0F3CF5)
    struct.pack_into(">H", head, 18, 2048)
    struct.pack_into(">h", head, 50, 1)
    maxp = struct.pack(">IH", 0x00010000, n) + b"\x00" * 26
    tabs = [(b"glyf", glyf), (b"head", bytes(head)), (b"loca", loca), (b"maxp", maxp)]
    out = struct.pack(">IHHHH", 0x00010000, len(tabs), 64, 2, 0)
    off, body = 12 + 16 * len(tabs), b""
    for tg, d in tabs:
        out += struct.pack(">4sIII", tg, 0, off + len(body), len(d))
        body += d + b"\x00" * (-len(d) % 4)
    return out + body


def pdf_font(variant: str, own_font: bool = False) -> tuple[bytes, dict]:
    """A page whose digits are set in an embedded CID TrueType font with a ToUnicode map that sends them to U+0000 (so the reader has to recover
    them from the font program).  Variants use different glyphs of the SAME font program bytes (A: 1 2 3, B: 14 15 16 17, C: 25 26, D: 1 2 3 again);
    with ``own_font`` every variant embeds a program of its own (control)."""
    gids = {"A": [1, 2, 3], "B": [14, 15, 16, 17], "C": [25, 26, 8], "D": [3, 2, 1]}[variant]
    tag = f"isopdffont{'own' if own_font else ''}{variant}"
    font = _ttf(salt=(1 + "ABCD".index(variant)) if own_font else 0)
    codes = "".join("%04X" % g for g in gids)
    content = f"BT /F2 12 Tf 50 750 Td ({tag}) Tj ET BT /F1 12 Tf 50 700 Td <{codes}> Tj ET BT /F2 12 Tf 50 650 Td (end{tag}) Tj ET".encode()
    cmap = ("/CIDInit /ProcSet findresource begin 12 dict begin begincmap /CMapName /X def /CMapType 2 def 1 begincodespacerange <0000> <FFFF> endcodespacerange "
            f"{len(gids)} beginbfchar " + " ".join("<%04X> <0000>" % g for g in gids) + " endbfchar endcmap CMapName currentdict /CMap defineresource pop end end").encode()
    objs = [b"<< /Type /Catalog /Pages 2 0 R >>", b"<< /Type /Pages /Kids [3 0 R] /Count 1 >>",
            b"<< /Type /Page /Parent 2 0 R /MediaBox [0 0 612 792] /Resources << /Font << /F1 5 0 R /F2 10 0 R >> >> /Contents 4 0 R >>",
            b"<< /Length %d >>\nstream\n" % len(content) + content + b"\nendstream",
            b"<< /Type /Font /Subtype /Type0 /BaseFont /ISOFNT /Encoding /Identity-H /DescendantFonts [6 0 R] /ToUnicode 8 0 R >>",
            b"<< /Type /Font /Subtype /CIDFontType2 /BaseFont /ISOFNT /CIDSystemInfo << /Registry (Adobe) /Ordering (Identity) /Supplement 0 >> /FontDescriptor 7 0 R /CIDToGIDMap /Identity /DW 1000 >>",
            b"<< /Type /FontDescriptor /FontName /ISOFNT /Flags 4 /FontBBox [0 0 1000 1000] /ItalicAngle 0 /Ascent 800 /Descent -200 /CapHeight 700 /StemV 80 /FontFile2 9 0 R >>",
            b"<< /Length %d >>\nstream\n" % len(cmap) + cmap + b"\nendstream",
            b"<< /Length %d /Length1 %d >>\nstream\n" % (len(font), len(font)) + font + b"\nendstream",
            b"<< /Type /Font /Subtype /Type1 /BaseFont /Helvetica >>"]
    out, xref = b"%PDF-1.4\n", []
    for i, o in enumerate(objs, 1):
        xref.append(len(out))
        out += b"%d 0 obj\n" % i + o + b"\nendobj\n"
    x = len(out)
    out += b"xref\n0 %d\n0000000000 65535 f \n" % (len(objs) + 1) + b"".join(b"%010d 00000 n \n" % p_ for p_ in xref)
    out += b"trailer\n<< /Size %d /Root 1 0 R >>\nstartxref\n%d\n%%%%EOF\n" % (len(objs) + 1, x)
    return out, {"has": [tag, "end" + tag, "".join(str(g % 10) for g in gids)], "not": []}


def pdf_colour_space(variant: str) -> tuple[bytes, dict]:
    """A page with one tiny image XObject whose /ColorSpace is: a name (plain), an array with an indirect reference (iccbased-like: 'array'),
    or a DeviceN array whose attributes dictionary holds a further indirect reference ('nested-dict')."""
    tag = "isopdfcs" + variant.replace("-", "")
    cs = {"plain": b"/DeviceGray", "array": b"[/Separation /Spot1 /DeviceRGB 7 0 R]",
          "nested-dict": b"[/DeviceN [/Spot1] /DeviceRGB 7 0 R << /Subtype /DeviceN /Colorants << /Spot1 8 0 R >> >>]"}[variant]
    content = f"BT /F2 12 Tf 50 750 Td ({tag}) Tj ET q 100 0 0 100 50 500 cm /Im0 Do Q BT /F2 12 Tf 50 400 Td (end{tag}) Tj ET".encode()
    img, fn = b"\x10\x80\xc0\xff", b"{ dup dup }"
    objs = [b"<< /Type /Catalog /Pages 2 0 R >>", b"<< /Type /Pages /Kids [3 0 R] /Count 1 >>",
            b"<< /Type /Page /Parent 2 0 R /MediaBox [0 0 612 792] /Resources << /Font << /F2 5 0 R >> /XObject << /Im0 6 0 R >> >> /Contents 4 0 R >>",
            b"<< /Length %d >>\nstream\n" % len(content) + content + b"\nendstream",
            b"<< /Type /Font /Subtype /Type1 /BaseFont /Helvetica >>",
            b"<< /Type /XObject /Subtype /Image /Width 2 /Height 2 /BitsPerComponent 8 /ColorSpace " + cs + b" /Length %d >>\nstream\n" % len(img) + img + b"\nendstream",
            b"<< /FunctionType 4 /Domain [0 1] /Range [0 1 0 1 0 1] /Length %d >>\nstream\n" % len(fn) + fn + b"\nendstream",
            b"[/Separation /Spot1 /DeviceRGB 7 0 R]"]
    out, xref = b"%PDF-1.4\n", []
    for i, o in enumerate(objs, 1):
        xref.append(len(out))
        out += b"%d 0 obj\n" % i + o + b"\nendobj\n"
    x = len(out)
    out += b"xref\n0 %d\n0000000000 65535 f \n" % (len(objs) + 1) + b"".join(b"%010d 00000 n \n" % p_ for p_ in xref)
    out += b"trailer\n<< /Size %d /Root 1 0 R >>\nstartxref\n%d\n%%%%EOF\n" % (len(objs) + 1, x)
    return out, {"has": [tag, "end" + tag], "not": []}


def pdf_big(variant: str) -> tuple[bytes, dict]:
    """An ordinary, unencrypted PDF of a little more than 10 MiB that contains images: the colour-space page plus an unreferenced, uncompressed
    ballast stream.  Heavy: not in all_sources() / groups(); the isolation check builds its own history steps from it."""
    base, _t = pdf_colour_space("plain" if variant == "images" else "array")
    tag = "isopdfbig" + variant
    cut = base.rindex(b"xref\n")
    body = base[:cut]
    n_obj = 8
    ballast = (b"%% ballast " + tag.encode() + b" ") * 1 + b"0123456789abcdef" * (11 * 1024 * 1024 // 16)
    offs = []
    pos = 0
    import re as _re
    for m in _re.finditer(rb"(?m)^(\d+) 0 obj\n", body):
        offs.append(m.start())
    extra_off = len(body)
    body += b"%d 0 obj\n<< /Length %d >>\nstream\n" % (n_obj + 1, len(ballast)) + ballast + b"\nendstream\nendobj\n"
    offs.append(extra_off)
    x = len(body)
    out = body + b"xref\n0 %d\n0000000000 65535 f \n" % (len(offs) + 1) + b"".join(b"%010d 00000 n \n" % p_ for p_ in offs)
    out += b"trailer\n<< /Size %d /Root 1 0 R >>\nstartxref\n%d\n%%%%EOF\n" % (len(offs) + 1, x)
    return out, {"has": [], "not": []}


# ------------------------------------------------------------------------------------------------------------ mail: sub-objects of different sizes, attachments the name alone cannot route
def _mbox_wrap(messages: list[bytes]) -> bytes:
    return b"".join(b"From sender@iso.example Mon Jan  2 03:04:05 2023\n" + m.replace(b"\r\n", b"\n") + b"\n" for m in messages)


def _inner_message(tag: str, lines: int) -> str:
    body = "".join(f"inner line {i} of {tag} ................................\r\n" for i in range(lines))
    return (f"From: inner{tag}@iso.example\r\nTo: x@iso.example\r\nSubject: inner {tag}\r\nDate: Tue, 03 Jan 2023 04:05:06 +0000\r\nMessage-ID: <inner-{tag}@iso>\r\n"
            f"MIME-Version: 1.0\r\nContent-Type: text/plain; charset=us-ascii\r\n\r\n{body}end inner {tag}\r\n")


MAIL_SIZES = {"long": 200, "mid": 20, "short": 2, "tiny": 0}


def mail_sized(kind: str, variant: str) -> tuple[bytes, dict]:
    """A message whose attachment is an attached message (message/rfc822), a multipart sent as attachment, or a plain file of the same name —
    in different sizes (a long one, then shorter ones: whatever a re-used scratch buffer keeps beyond the new end would show).
    variant = <what>-<size>: what in msg / multi / file; size in long / mid / short / tiny; 'box' (mbox only) = long, short, mid, tiny in one mailbox."""
    def one(what: str, size: str, tag: str) -> bytes:
        n = MAIL_SIZES[size]
        head = (f"From: a{tag}@iso.example\r\nTo: b@iso.example\r\nSubject: outer {tag}\r\nDate: Mon, 02 Jan 2023 03:04:05 +0000\r\nMessage-ID: <outer-{tag}@iso>\r\n"
                "MIME-Version: 1.0\r\nContent-Type: multipart/mixed; boundary=\"isoOUT\"\r\n\r\n--isoOUT\r\nContent-Type: text/plain; charset=us-ascii\r\n\r\n"
                f"outer body {tag} end{tag}\r\n--isoOUT\r\n")
        if what == "msg":
            part = "Content-Type: message/rfc822\r\nContent-Disposition: attachment; filename=\"fwd.eml\"\r\n\r\n" + _inner_message(tag, n)
        elif what == "multi":
            part = ("Content-Type: multipart/alternative; boundary=\"isoIN\"\r\nContent-Disposition: attachment; filename=\"both.bin\"\r\n\r\n--isoIN\r\nContent-Type: text/plain\r\n\r\n"
                    + "".join(f"alt line {i} {tag}\r\n" for i in range(n)) + f"--isoIN\r\nContent-Type: text/html\r\n\r\n<p>alt html {tag}</p>\r\n--isoIN--\r\n")
        else:
            part = ("Content-Type: text/plain; name=\"same.txt\"\r\nContent-Disposition: attachment; filename=\"same.txt\"\r\n\r\n"
                    + "".join(f"file line {i} {tag}\r\n" for i in range(n)) + f"file end {tag}\r\n")
        return (head + part + "\r\n--isoOUT--\r\n").encode("ascii")
    tag = f"isomail{kind}{variant.replace('-', '')}"
    if variant == "box":
        msgs = [one(w, sz, f"{tag}{w}{sz}") for w, sz in (("msg", "long"), ("msg", "short"), ("multi", "mid"), ("file", "long"), ("msg", "tiny"), ("file", "short"))]
        return _mbox_wrap(msgs), {"has": [tag], "not": []}
    what, size = variant.split("-")
    raw = one(what, size, tag)
    return (_mbox_wrap([raw]) if kind == "mbox" else raw), {"has": ["end" + tag], "not": []}


def mail_unnamed(kind: str, variant: str) -> tuple[bytes, dict]:
    """Attachments whose media type is supported but whose name cannot route them: no file name at all, a name without extension, an extension nobody
    knows, an empty name; 'named' is the control (an ordinary file name)."""
    tag = f"isomailname{kind}{variant.replace('-', '')}"
    cid = variant.endswith("-cid")
    variant = variant[:-4] if cid else variant
    cd = {"noname": "attachment", "noext": 'attachment; filename="report"', "unknownext": 'attachment; filename="export.dat1"', "emptyname": 'attachment; filename=""',
          "named": 'attachment; filename="page.html"', "inline-noname": "inline"}[variant]
    parts = []
    for ctype, content in (("text/html; charset=utf-8", f"<html><body><p>html att {tag}</p></body></html>"), ("text/plain; charset=utf-8", f"plain att {tag}"),
                           ("text/csv", f"a,b\r\n{tag},1"), ("application/json", '{"k": "%s"}' % tag)):
        cid_h = f"Content-ID: <part{len(parts)}.{tag}@iso.example>\r\n" if cid else ""      # the only handle such a part has
        parts.append(f"--isoNM\r\nContent-Type: {ctype}\r\nContent-Disposition: {cd}\r\n{cid_h}\r\n{content}\r\n")
    raw = (f"From: a{tag}@iso.example\r\nTo: b@iso.example\r\nSubject: {tag}\r\nDate: Mon, 02 Jan 2023 03:04:05 +0000\r\nMessage-ID: <{tag}@iso>\r\nMIME-Version: 1.0\r\n"
           "Content-Type: multipart/mixed; boundary=\"isoNM\"\r\n\r\n--isoNM\r\nContent-Type: text/plain; charset=us-ascii\r\n\r\n"
           f"body {tag} end{tag}\r\n" + "".join(parts) + "--isoNM--\r\n").encode("ascii")
    return (_mbox_wrap([raw]) if kind == "mbox" else raw), {"has": ["end" + tag], "not": []}


MAIL_SIZED = ["msg-long", "msg-short", "msg-mid", "msg-tiny", "multi-long", "multi-short", "file-long", "file-short"]
MAIL_UNNAMED = ["noname", "noext", "unknownext", "emptyname", "inline-noname", "named", "noname-cid", "emptyname-cid", "inline-noname-cid", "named-cid"]


# ------------------------------------------------------------------------------------------------------------ nesting deeper than the interpreter's recursion limit
DEEP_LEVELS = {"d300": 300, "d1500": 1500, "d3000": 3000, "d5000": 5000}


def deep_markup(kind: str, variant: str) -> tuple[bytes, dict]:
    """HTML / MHTML whose elements nest ``n`` levels deep (generated <div>/<span> soup): far below (300) or far above (1500+) the default
    recursion limit, never near it, so that the outcome does not depend on how deep the caller's own stack happens to be."""
    n = DEEP_LEVELS[variant]
    tag = f"isodeep{kind}{variant}"
    opens = "".join("<div>" if i % 3 else "<span>" for i in range(n))
    closes = "".join("</div>" if i % 3 else "</span>" for i in reversed(range(n)))
    doc = f"<html><head><title>t{tag}</title></head><body><p>{tag}</p>{opens}deep {tag}{closes}<p>end{tag}</p></body></html>"
    if kind == "html":
        return doc.encode(), {"has": [], "not": []}
    raw = ("From: <Saved by verif>\r\nSubject: " + tag + "\r\nMIME-Version: 1.0\r\nContent-Type: multipart/related; type=\"text/html\"; boundary=\"----isoDEEP\"\r\n\r\n"
           "------isoDEEP\r\nContent-Type: text/html; charset=utf-8\r\nContent-Transfer-Encoding: 8bit\r\nContent-Location: http://iso.example/d.html\r\n\r\n"
           + doc + "\r\n------isoDEEP--\r\n").encode("ascii")
    return raw, {"has": [], "not": []}


# ------------------------------------------------------------------------------------------------------------ names only the MIME fallback can decide
# extensions no routing table of a document library is likely to list, that some MIME database may know (as text, as something else, or not at all)
MIME_ONLY_EXTS = ["log", "text", "conf", "cfg", "ini", "lst", "asc", "diff", "patch", "py", "c", "h", "bat", "ksh", "pl", "tex", "rst", "yaml", "yml", "toml",
                  "xml", "xsl", "svg", "css", "js", "mjs", "ics", "vcf", "srt", "vtt", "emf", "vml", "bin", "rels", "properties", "nfo", "out", "err", "lock"]


def mime_members(variant: str) -> tuple[bytes, dict]:
    """ZIP / tar archives whose members carry extensions that only a MIME database can decide (next to one routed member)."""
    tag = "isomimezip" + variant
    exts = MIME_ONLY_EXTS[::2] if variant.endswith("A") else MIME_ONLY_EXTS[1::2]
    members = [("notes/readme.md", f"# {tag} readme end{tag}\n".encode())]
    for i, e in enumerate(exts):
        members.append((f"logs/server{i}.{e}", f"{tag} member {e} line one\nline two\n".encode()))
        members.append((f"UPPER{i}.{e.upper()}", f"{tag} MEMBER {e}\n".encode()))
    if variant.startswith("tar"):
        import tarfile
        buf = io.BytesIO()
        with tarfile.open(fileobj=buf, mode="w", format=tarfile.USTAR_FORMAT) as t:
            for n, d in members:
                ti = tarfile.TarInfo(n)
                ti.size, ti.mtime, ti.mode = len(d), 981173106, 0o644
                t.addfile(ti, io.BytesIO(d))
        return buf.getvalue(), {"has": [tag], "not": []}
    return _zip(members), {"has": [tag], "not": []}


def route_names(variant: str) -> tuple[bytes, dict]:
    """Not a document: a list of path strings whose routing answers (is_supported_file, get_extractor) are asked as a history step."""
    exts = MIME_ONLY_EXTS if variant == "mime-only" else ["txt", "md", "docx", "pdf", "tar.gz", "LOG", "Text", "zzz", "unknownext", ""]
    names = []
    for e in exts:
        names += [f"var/app.{e}", f"Shared Documents/Q3/report v2.{e.upper()}", f"a.b.{e}"]
    return "\n".join(names).encode(), {"has": [], "not": []}


# ------------------------------------------------------------------------------------------------------------ mail / web archives
def eml(variant: str) -> tuple[bytes, dict]:
    """A / B: the same Message-ID, MIME boundary, Content-ID and attachment file name, different content;
    cpA / cpB: the same high bytes in the body under different declared charsets."""
    tag = "isoeml" + variant
    if variant.startswith("cp"):
        cs = {"cpA": "iso-8859-1", "cpB": "koi8-r", "cpC": "windows-1251", "cpD": "iso-8859-7"}[variant]
        raw = (f"From: a{tag}@example.org\r\nTo: b@example.org\r\nSubject: {tag}\r\nMessage-ID: <same@iso.example>\r\nDate: Mon, 02 Jan 2023 03:04:05 +0000\r\n"
               f"MIME-Version: 1.0\r\nContent-Type: text/plain; charset={cs}\r\nContent-Transfer-Encoding: 8bit\r\n\r\n{tag} ").encode("ascii") + bytes(RTF_SHARED_BYTES) + f" end{tag}\r\n".encode()
        return raw, {"has": [tag, "end" + tag], "not": []}
    raw = (f"From: a{tag}@example.org\r\nTo: b@example.org\r\nSubject: {tag}\r\nMessage-ID: <same@iso.example>\r\nDate: Mon, 02 Jan 2023 03:04:05 +0000\r\n"
           "MIME-Version: 1.0\r\nContent-Type: multipart/mixed; boundary=\"isoBOUNDARY\"\r\n\r\n--isoBOUNDARY\r\nContent-Type: text/plain; charset=utf-8\r\n\r\n"
           f"{tag} body end{tag}\r\n--isoBOUNDARY\r\nContent-Type: text/plain; name=\"same.txt\"\r\nContent-Disposition: attachment; filename=\"same.txt\"\r\nContent-ID: <cid1@iso>\r\n\r\n"
           f"att{tag}\r\n--isoBOUNDARY--\r\n").encode("ascii")
    return raw, {"has": [tag, "end" + tag], "not": []}


def mhtml(variant: str) -> tuple[bytes, dict]:
    """A / B: the same boundary and Content-Location, different HTML."""
    tag = "isomhtml" + variant
    raw = ("From: <Saved by verif>\r\nSubject: " + tag + "\r\nMIME-Version: 1.0\r\nContent-Type: multipart/related; type=\"text/html\"; boundary=\"----isoMHT\"\r\n\r\n"
           "------isoMHT\r\nContent-Type: text/html; charset=utf-8\r\nContent-Transfer-Encoding: 8bit\r\nContent-Location: http://iso.example/page.html\r\n\r\n"
           f"<html><head><title>t{tag}</title></head><body><p>{tag}</p><p>end{tag}</p></body></html>\r\n------isoMHT--\r\n").encode("ascii")
    return raw, {"has": [tag, "end" + tag], "not": []}


def html(variant: str) -> tuple[bytes, dict]:
    """cpA..cpD: the same high bytes under different declared charsets (the bytes are the sub-key, the <meta> the context)."""
    cs = {"cpA": "windows-1252", "cpB": "windows-1251", "cpC": "iso-8859-7", "cpD": "koi8-r", "cpE": "iso-8859-2"}[variant]
    tag = "isohtml" + variant
    raw = (f'<html><head><meta charset="{cs}"><title>t{tag}</title></head><body><p>{tag} ').encode("ascii") + bytes(RTF_SHARED_BYTES) + f" end{tag}</p></body></html>".encode()
    return raw, {"has": [tag, "end" + tag], "not": []}


def plain(variant: str) -> tuple[bytes, dict]:
    tag = "isoplain" + variant
    if variant == "csv":
        return f"name,value\n{tag},1\nend{tag},2\n".encode(), {"has": [tag, "end" + tag], "not": []}
    return f"{tag} first line\nend{tag}\n".encode(), {"has": [tag, "end" + tag], "not": []}


def archive(variant: str) -> tuple[bytes, dict]:
    """A / B: ZIP archives with identical member names (a.txt, d/b.rtf, c.docx) and different member content."""
    tag = "isozip" + variant
    d, _ = docx("hfA" if variant == "A" else "hfB")
    r, _ = rtf_codepage(1252 if variant == "A" else 1251)
    return _zip([("a.txt", f"{tag} text end{tag}\n".encode()), ("d/b.rtf", r), ("c.docx", d)]), {"has": [tag], "not": []}


# ------------------------------------------------------------------------------------------------------------ registry
# family -> (kind, builder(variant) -> (bytes, truth), extension, variants)
FAMILIES = {
    "rtf-cp": ("rtf", lambda v: rtf_codepage(*_rtf_variant(v)), ".rtf",
               [f"{'none' if cp is None else cp}" for cp in RTF_CODEPAGES] + ["1252:upper", "1251:upper", "1250:mixed", "1251:mixed", "none:mixed", "1252:hf", "1251:hf", "1250:hf", "none:hf"]),
    "docx": ("docx", docx, ".docx", ["hfA", "hfB", "hfdangling", "hfnone", "hfother", "nometa", "notesA", "notesB", "notesdangling", "imgA", "imgB", "imgdangling", "imgcase", "styA", "styB"] + ['ommlgood-paren', 'ommlgood-bracket', 'ommlgood-brace', 'ommlfail-paren', 'ommlfail-bracket', 'ommlfail-brace']),
    "xlsx": ("xlsx", xlsx, ".xlsx", ["sstA", "sstB", "sstinline", "nometa", "vals-double", "vals-bool", "vals-int", "vals-text", "vals-mixed"]),
    "pptx": ("pptx", pptx, ".pptx", ["imgA", "imgB", "imgdangling", "imgcase", "cmA", "cmB", "cmdangling", "nometa", "plain"]),
    "odt": ("odt", lambda v: odf("odt", v), ".odt", ODF_META_FORMS),
    "ods": ("ods", lambda v: odf("ods", v), ".ods", ODF_META_FORMS),
    "odp": ("odp", lambda v: odf("odp", v), ".odp", ODF_META_FORMS),
    "odg": ("odg", lambda v: odf("odg", v), ".odg", ODF_META_FORMS),
    "odf": ("odf", lambda v: odf("odf", v), ".odf", ["meta", "nometa", "emptymeta", "bare"]),
    "epub": ("epub", epub, ".epub", ["A", "B", "nometa"]),
    "eml": ("eml", eml, ".eml", ["A", "B", "cpA", "cpB", "cpC", "cpD"]),
    "mhtml": ("mhtml", mhtml, ".mhtml", ["A", "B"]),
    "html": ("html", html, ".html", ["cpA", "cpB", "cpC", "cpD", "cpE"]),
    "zip": ("zip", archive, ".zip", ["A", "B"]),
    "plain": ("txt", plain, ".txt", ["txt", "csv"]),
    "epub-multi": ("epub", epub_multi, ".epub", ["navs", "navs2", "meta", "dupid", "covers"]),
    "html-multi": ("html", html_multi, ".html", ["titles", "metas", "ids"]),
    "unb-epub": ("epub", lambda v: unbalanced("epub", v), ".epub", UNBALANCED_FORMS),
    "unb-epub-last": ("epub", lambda v: unbalanced("epub-last", v), ".epub", UNBALANCED_FORMS),
    "unb-html": ("html", lambda v: unbalanced("html", v), ".html", UNBALANCED_FORMS),
    "unb-mhtml": ("mhtml", lambda v: unbalanced("mhtml", v), ".mhtml", UNBALANCED_FORMS),
    "pdf-cs": ("pdf", pdf_colour_space, ".pdf", ["plain", "array", "nested-dict"]),     # not in any group: for the purity check only
    "pdf-big": ("pdf", pdf_big, ".pdf", ["images", "images2"]),      # heavy (>= 10 MiB): see HEAVY_FAMILIES
    "pdf-font": ("pdf", pdf_font, ".pdf", ["A", "B", "C", "D"]),
    "pdf-font-own": ("pdf", lambda v: pdf_font(v, own_font=True), ".pdf", ["A", "B", "C", "D"]),
    "mbox-sized": ("mbox", lambda v: mail_sized("mbox", v), ".mbox", MAIL_SIZED + ["box"]),
    "eml-sized": ("eml", lambda v: mail_sized("eml", v), ".eml", MAIL_SIZED),
    "mbox-unnamed": ("mbox", lambda v: mail_unnamed("mbox", v), ".mbox", MAIL_UNNAMED),
    "eml-unnamed": ("eml", lambda v: mail_unnamed("eml", v), ".eml", MAIL_UNNAMED),
    "deep-html": ("html", lambda v: deep_markup("html", v), ".html", ["d300", "d1500", "d3000", "d5000"]),
    "deep-mhtml": ("mhtml", lambda v: deep_markup("mhtml", v), ".mhtml", ["d300", "d1500", "d3000"]),
    "zip-mime": ("zip", mime_members, ".zip", ["zipA", "zipB"]),
    "tar-mime": ("zip", mime_members, ".tar", ["tarA", "tarB"]),
    "route": ("route", route_names, ".names", ["mime-only", "mixed"]),
}
# the variants of a family that are the *risky* forms (optional part absent / only referenced) and their control twin
OPTIONAL_ABSENT = {("docx", "hfdangling"): "hfnone", ("docx", "nometa"): "hfnone", ("docx", "notesdangling"): "notesA", ("docx", "imgdangling"): "imgA",
                   ("xlsx", "nometa"): "sstA", ("pptx", "nometa"): "plain", ("pptx", "imgdangling"): "imgA", ("pptx", "cmdangling"): "cmA",
                   ("epub", "nometa"): "A"}
for _k in ("odt", "ods", "odp", "odg", "odf"):
    for _f in ("nometa", "emptymeta", "nostyles", "bare", "imgdangling"):
        if _f in FAMILIES[_k][3]:
            OPTIONAL_ABSENT[(_k, _f)] = "imgA" if _f == "imgdangling" else "meta"


def _rtf_variant(v: str):
    cp, _, form = v.partition(":")
    return (None if cp == "none" else int(cp)), (form or "plain")


# features whose documents are known to expose an open defect of the library (the control twin of each is listed next to it): checks put the
# feature into the mechanism key of whatever such a document shows, so that it can be told from everything else that happens to the format
RISKY_FEATURES = {"pdf-shared-font-program": "pdf-own-font-program", "pdf-colour-space-nested-dictionary": "pdf-colour-space"}


def feature(src, kind: str = "") -> str:
    """Mechanism-level name of a source: family + what is varied (never the individual variant), e.g. rtf-cp, docx-hf, odt-optional-parts."""
    import re
    if src[1] == "drop":
        return f"{kind or 'package'}-optional-parts-removed"
    fam, var = src[1], str(src[2]).split(":")[0]
    if fam == "pdf-big":
        return "pdf-10MiB-with-images"
    if fam == "pdf-cs":
        return "pdf-colour-space" + ("-nested-dictionary" if var == "nested-dict" else "")
    fixed = {"rtf-cp": "rtf-cp", "epub-multi": "epub-first-match-candidates", "html-multi": "html-first-match-candidates", "plain": "plain",
             "zip-mime": "archive-mime-fallback-members", "tar-mime": "archive-mime-fallback-members", "route": "router-mime-fallback-names",
             "pdf-font": "pdf-shared-font-program", "pdf-font-own": "pdf-own-font-program",
             "mbox-sized": "mbox-attachment-sizes", "eml-sized": "eml-attachment-sizes", "mbox-unnamed": "mbox-unnamed-attachment", "eml-unnamed": "eml-unnamed-attachment",
             "deep-html": "html-deep-nesting", "deep-mhtml": "mhtml-deep-nesting",
             "unb-epub": "epub-unclosed-markup", "unb-epub-last": "epub-unclosed-markup", "unb-html": "html-unclosed-markup", "unb-mhtml": "mhtml-unclosed-markup"}
    if fam in fixed:
        return fixed[fam]
    if var.startswith("omml"):
        return fam + "-formula" + ("-unfinished" if "fail" in var else "")
    if var.startswith("vals"):
        return fam + "-typed-values"
    if var in ("meta", "nometa", "emptymeta", "nostyles", "bare", "plain"):
        return fam + "-optional-parts"
    stem = re.sub(r"(A|B|C|D|E|dangling|none|other|inline|case)$", "", var)
    return fam + ("-" + stem if stem else "")


HEAVY_FAMILIES = {"pdf-big"}


def all_sources() -> list[tuple[str, list]]:
    """[(kind, source)] of every family x variant."""
    return [(spec[0], ["iso", fam, v]) for fam, spec in FAMILIES.items() for v in spec[3] if spec[0] != "route" and fam not in HEAVY_FAMILIES]


def groups() -> list[dict]:
    """Groups of (kind, source) that share a sub-key and differ in its context; one group per family and sub-key."""
    def g(name, fam, variants):
        return {"name": name, "members": [(FAMILIES[fam][0], ["iso", fam, v]) for v in variants]}
    out = [
        g("rtf:hex-escape/code-page", "rtf-cp", FAMILIES["rtf-cp"][3]),
        g("docx:header-part-name/package", "docx", ["hfA", "hfB", "hfdangling", "hfnone", "hfother"]),
        g("docx:note-id/package", "docx", ["notesA", "notesB", "notesdangling"]),
        g("docx:image-rid/package", "docx", ["imgA", "imgB", "imgdangling", "imgcase"]),
        g("docx:style-id/package", "docx", ["styA", "styB", "nometa"]),
        {"name": "ooxml:formula-converter/unfinished-conversion",
         "members": [("docx", ["iso", "docx", v]) for v in ['ommlgood-paren', 'ommlgood-bracket', 'ommlgood-brace', 'ommlfail-paren', 'ommlfail-bracket', 'ommlfail-brace']] + [("pptx", ["fx", "modern_ms/pptx_formula_image.pptx"])]},
        g("xlsx:shared-string-index/workbook", "xlsx", ["sstA", "sstB", "sstinline", "nometa"]),
        g("xlsx:equal-values-of-different-types/cell-type", "xlsx", ["vals-double", "vals-bool", "vals-int", "vals-text", "vals-mixed"]),
        g("pptx:image-rid/package", "pptx", ["imgA", "imgB", "imgdangling", "imgcase"]),
        g("pptx:comment-part-name/package", "pptx", ["cmA", "cmB", "cmdangling", "plain", "nometa"]),
        g("epub:manifest-id/package", "epub", ["A", "B", "nometa"]),
        g("eml:boundary-msgid-cid/message", "eml", ["A", "B"]),
        g("eml:high-bytes/charset", "eml", ["cpA", "cpB", "cpC", "cpD"]),
        g("mhtml:boundary-location/message", "mhtml", ["A", "B"]),
        g("html:high-bytes/charset", "html", ["cpA", "cpB", "cpC", "cpD", "cpE"]),
        g("zip:member-name/archive", "zip", ["A", "B"]),
    ]
    out += [
        g("epub:first-match-candidates/manifest-order", "epub-multi", FAMILIES["epub-multi"][3]),
        g("html:first-match-candidates/document-order", "html-multi", FAMILIES["html-multi"][3]),
        g("epub:unclosed-markup/parser-state", "unb-epub", UNBALANCED_FORMS),
        g("epub:unclosed-markup-first/parser-state", "unb-epub-last", UNBALANCED_FORMS),
        g("html:unclosed-markup/parser-state", "unb-html", UNBALANCED_FORMS),
        g("mhtml:unclosed-markup/parser-state", "unb-mhtml", UNBALANCED_FORMS),
    ]
    out += [
        g("pdf:embedded-font-program/glyphs-used", "pdf-font", ["A", "B", "C", "D"]),
        g("pdf:embedded-font-program-per-document/glyphs-used", "pdf-font-own", ["A", "B", "C", "D"]),
    ]
    out += [
        g("mbox:attachment-size/scratch-buffer", "mbox-sized", FAMILIES["mbox-sized"][3]),
        g("eml:attachment-size/scratch-buffer", "eml-sized", MAIL_SIZED),
        g("mbox:attachment-name-fallback/stored-attachment", "mbox-unnamed", MAIL_UNNAMED),
        g("eml:attachment-name-fallback/stored-attachment", "eml-unnamed", MAIL_UNNAMED),
    ]
    # legacy Office: the same kind of property-set strings under different declared code pages (1252 as MS Office writes it, 65001 as LibreOffice does),
    # generated by the corpus writers (vlib/gen/ole.py, read-only): a decoder must take the code page from the file at hand
    out.append({"name": "ole:summary-strings/property-set-code-page",
                "members": [(f, ["gen", f, sd, ft]) for f in ("ppt", "xls", "doc") for sd in (0, 1) for ft in ("cp1252-summary", None)]})
    out.append({"name": "markup:deep-nesting/interpreter-recursion-limit",
                "members": [("html", ["iso", "deep-html", v]) for v in FAMILIES["deep-html"][3]] + [("mhtml", ["iso", "deep-mhtml", v]) for v in FAMILIES["deep-mhtml"][3]]
                + [("html", ["iso", "html", "cpA"]), ("epub", ["iso", "epub", "A"])]})
    # names only the MIME fallback decides, as archive members and as routing questions, next to the documents whose (lazily imported)
    # extractors could register such names: the answer must not depend on what was extracted before
    lazy = [("txt", ["iso", "plain", "txt"]), ("txt", ["iso", "plain", "csv"]), ("html", ["iso", "html", "cpA"]), ("xlsx", ["iso", "xlsx", "sstA"]),
            ("docx", ["iso", "docx", "hfnone"]), ("odt", ["iso", "odt", "imgA"]), ("epub", ["iso", "epub", "A"]), ("eml", ["iso", "eml", "A"])]
    out.append({"name": "archive:mime-fallback-member-names/process-mime-table",
                "members": [("zip", ["iso", "zip-mime", "zipA"]), ("zip", ["iso", "tar-mime", "tarB"]), ("zip", ["iso", "zip-mime", "zipB"]), ("zip", ["iso", "tar-mime", "tarA"])] + lazy})
    out.append({"name": "router:mime-fallback-names/process-mime-table",
                "members": [("route", ["iso", "route", "mime-only"]), ("route", ["iso", "route", "mixed"])] + lazy})
    for k in ("odt", "ods", "odp", "odg"):
        out.append(g(f"{k}:picture-name/package", k, ["imgA", "imgB", "imgdangling"]))
        out.append(g(f"{k}:optional-parts/package", k, ["meta", "nometa", "emptymeta", "nostyles", "bare"]))
    out.append(g("odf:optional-parts/package", "odf", ["meta", "nometa", "emptymeta", "bare"]))
    # across kinds: packages without metadata of different formats (one shared default object would connect them)
    out.append({"name": "odf-family:absent-metadata/package", "members": [(k, ["iso", k, f]) for k in ("odt", "ods", "odp", "odg", "odf") for f in ("nometa", "emptymeta")]})
    out.append({"name": "ooxml-family:absent-metadata/package", "members": [("docx", ["iso", "docx", "nometa"]), ("xlsx", ["iso", "xlsx", "nometa"]), ("pptx", ["iso", "pptx", "nometa"])]})
    return out


@functools.lru_cache(maxsize=512)
def _build(key: str):
    src = json.loads(key)
    if src[1] == "drop":
        from vlib import corpus
        return drop_parts(corpus.load(src[2]), src[3]), {"has": [], "not": []}
    return FAMILIES[src[1]][1](src[2])


def is_iso(src) -> bool:
    return bool(src) and src[0] == "iso"


def load(src) -> bytes:
    if not is_iso(src):
        from vlib import corpus
        return corpus.load(src)
    return _build(json.dumps(src))[0]


def truth(src) -> dict:
    return _build(json.dumps(src))[1]


def source_ext(src) -> str:
    if not is_iso(src):
        from vlib import corpus
        return corpus.source_ext(src)
    if src[1] == "drop":
        from vlib import corpus
        return corpus.source_ext(src[2])
    return FAMILIES[src[1]][2]


def make_input(recipe: dict) -> bytes:
    """corpus.make_input for both corpus sources and ["iso", ...] sources."""
    from vlib import corpus
    if not is_iso(recipe["src"]):
        return corpus.make_input(recipe)
    data = load(recipe["src"])
    if not recipe.get("op"):
        return data
    return corpus.make_input(dict(recipe, src=["raw", _b64(data)]))


def _b64(b: bytes) -> str:
    import base64
    return base64.b64encode(b).decode("ascii")


# optional parts of the ZIP-based formats: a package without them is still a document
OPTIONAL_PARTS = {
    "docx": [["docProps/core.xml"], ["docProps/app.xml"], ["docProps/core.xml", "docProps/app.xml"], ["word/styles.xml"], ["word/settings.xml", "word/fontTable.xml", "word/theme/theme1.xml"]],
    "pptx": [["docProps/core.xml"], ["docProps/app.xml"], ["docProps/core.xml", "docProps/app.xml"]],
    "xlsx": [["docProps/core.xml"], ["docProps/app.xml"], ["docProps/core.xml", "docProps/app.xml"], ["xl/styles.xml"]],
    "odt": [["meta.xml"], ["styles.xml"], ["meta.xml", "styles.xml", "settings.xml"]],
    "ods": [["meta.xml"], ["styles.xml"], ["meta.xml", "styles.xml", "settings.xml"]],
    "odp": [["meta.xml"], ["styles.xml"], ["meta.xml", "styles.xml", "settings.xml"]],
    "odg": [["meta.xml"], ["styles.xml"], ["meta.xml", "styles.xml", "settings.xml"]],
    "epub": [["OEBPS/toc.ncx", "toc.ncx"], ["OEBPS/nav.xhtml", "nav.xhtml"]],
}


def drop_parts(data: bytes, names: list[str]) -> bytes:
    """The same ZIP package without the named members (everything else byte-identical after decompression)."""
    drop = set(names)
    zin = zipfile.ZipFile(io.BytesIO(data))
    buf = io.BytesIO()
    with zipfile.ZipFile(buf, "w") as z:
        for info in zin.infolist():
            if info.filename in drop:
                continue
            zi = zipfile.ZipInfo(info.filename, date_time=_FIXED)
            zi.compress_type = info.compress_type if info.compress_type in (zipfile.ZIP_STORED, zipfile.ZIP_DEFLATED) else zipfile.ZIP_DEFLATED
            zi.external_attr = info.external_attr
            z.writestr(zi, zin.read(info.filename))
    return buf.getvalue()


def dropped_sources(sources: dict, kinds=None, per_kind: int = 2) -> list[tuple[str, list]]:
    """[(kind, ["iso", "drop", src, parts])] for the first generated (else small fixture) documents of each ZIP kind of ``sources``
    (a ``corpus.all_sources`` dict): one source per optional-part set that really removes something."""
    out = []
    for kind, partsets in OPTIONAL_PARTS.items():
        if kinds and kind not in kinds:
            continue
        n = 0
        # generated documents first (small); fixtures only when the kind has no generator, and then only small ones
        cands = [s for s in sources.get(kind, []) if s[0] == "gen" and not s[3]] or [s for s in sources.get(kind, []) if s[0] == "fx"]
        for src in cands:
            try:
                from vlib import corpus
                data = corpus.load(src)
                if len(data) > 200_000:
                    continue
                names = set(zipfile.ZipFile(io.BytesIO(data)).namelist())
            except Exception:
                continue
            for ps in partsets:
                if names & set(ps):
                    out.append((kind, ["iso", "drop", src, ps]))
            n += 1
            if n >= per_kind:
                break
    return out


# paths a caller may pass along with the bytes (the second argument of every extractor); None = no path given
PATHS = [None, "dir/in{ext}", "other folder/sub.dir/Report Q3{ext}", "/abs/top/x{ext}", "ünï/文件{ext}", "in{ext}"]


def path_for(i: int, ext: str):
    p = PATHS[i % len(PATHS)]
    return None if p is None else p.format(ext=ext)
