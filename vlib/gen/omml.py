"""OMML formula specs: generator, XML writer, independent reference renderer, docx/pptx embedding.

A formula is a JSON-able *spec* (the ground truth); ``to_xml`` writes it as OMML, ``build`` parses that
into the ``xml.etree`` element the converter takes.  ``analyse`` is the oracle's half: it walks the spec
(never the element tree, never the repository's code) and produces

* the ordered list of mapped run texts (Greek / symbol characters mapped through ``SYMBOLS`` below, an
  independent hand-written copy of the documented table),
* the LaTeX the documented templates give for the tree (``expected``), or the reasons why the
  tests/README do not define the rendering of this tree (``unclaimed``),
* the feature set: risky features, literal braces, malformed radicals (operand = lone opening bracket).

A run's text is the text of its m:t or w:t child, whether the run is an m:r or a w:r placed in the math zone
(``R(..., w=)``); the converter documents "both w:t and m:t", the property speaks of "every run's text".

Documented forms (sharepoint2text/tests/test_omml_to_latex.py, module docstring of omml_to_latex.py):
  f -> \\frac{num}{den}; sSup -> base^{sup}; sSub -> base_{sub}; sSubSup -> base_{sub}^{sup};
  rad -> \\sqrt{e} / \\sqrt[deg]{e}; nary -> \\sum|\\prod|\\int|\\iint|\\iiint[_{sub}][^{sup}] e (empty limit omitted);
  d -> beg e1, e2, ... end (default parentheses when m:begChr/m:endChr or its m:val is absent; a present, empty
  m:val="" is the value "": nothing on that side); m -> \\begin{matrix}a & b \\\\ c & d\\end{matrix};
  func -> \\sin{e} for sin cos tan log ln lim exp max min, other names verbatim; bar -> \\overline{e};
  acc -> \\hat \\tilde \\bar \\vec \\dot by m:chr, \\hat for an unknown accent character.
"""
from __future__ import annotations

import io
import itertools
import re
import zipfile
from xml.etree import ElementTree as ET
from xml.sax.saxutils import escape, quoteattr

M_URI = "http://schemas.openxmlformats.org/officeDocument/2006/math"
W_URI = "http://schemas.openxmlformats.org/wordprocessingml/2006/main"
NSDECL = f'xmlns:m="{M_URI}" xmlns:w="{W_URI}"'

# --------------------------------------------------------------------------------------------------
# Independent copy of the documented symbol table (written out by hand; standard LaTeX names).
# --------------------------------------------------------------------------------------------------
SYMBOLS: dict[str, str] = {
    # lower-case Greek
    "α": r"\alpha", "β": r"\beta", "γ": r"\gamma", "δ": r"\delta", "ε": r"\epsilon", "ζ": r"\zeta",
    "η": r"\eta", "θ": r"\theta", "ι": r"\iota", "κ": r"\kappa", "λ": r"\lambda", "μ": r"\mu",
    "ν": r"\nu", "ξ": r"\xi", "ο": "o", "π": r"\pi", "ρ": r"\rho", "σ": r"\sigma", "ς": r"\varsigma",
    "τ": r"\tau", "υ": r"\upsilon", "φ": r"\phi", "χ": r"\chi", "ψ": r"\psi", "ω": r"\omega",
    # upper-case Greek (those that look like Latin capitals are the Latin capital)
    "Α": "A", "Β": "B", "Γ": r"\Gamma", "Δ": r"\Delta", "Ε": "E", "Ζ": "Z", "Η": "H", "Θ": r"\Theta",
    "Ι": "I", "Κ": "K", "Λ": r"\Lambda", "Μ": "M", "Ν": "N", "Ξ": r"\Xi", "Ο": "O", "Π": r"\Pi",
    "Ρ": "P", "Σ": r"\Sigma", "Τ": "T", "Υ": r"\Upsilon", "Φ": r"\Phi", "Χ": "X", "Ψ": r"\Psi",
    "Ω": r"\Omega",
    # mathematical symbols
    "∞": r"\infty", "∂": r"\partial", "∇": r"\nabla", "±": r"\pm", "∓": r"\mp", "×": r"\times",
    "÷": r"\div", "·": r"\cdot", "≤": r"\leq", "≥": r"\geq", "≠": r"\neq", "≈": r"\approx",
    "≡": r"\equiv", "∈": r"\in", "∉": r"\notin", "⊂": r"\subset", "⊃": r"\supset", "⊆": r"\subseteq",
    "⊇": r"\supseteq", "∪": r"\cup", "∩": r"\cap", "∧": r"\land", "∨": r"\lor", "¬": r"\neg",
    "→": r"\rightarrow", "←": r"\leftarrow", "↔": r"\leftrightarrow", "⇒": r"\Rightarrow",
    "⇐": r"\Leftarrow", "⇔": r"\Leftrightarrow", "∀": r"\forall", "∃": r"\exists", "∅": r"\emptyset",
    "ℕ": r"\mathbb{N}", "ℤ": r"\mathbb{Z}", "ℚ": r"\mathbb{Q}", "ℝ": r"\mathbb{R}", "ℂ": r"\mathbb{C}",
}
SYMBOL_CHARS = list(SYMBOLS)
assert len(SYMBOLS) == 87

NARY_OPS = {"∑": r"\sum", "∏": r"\prod", "∫": r"\int", "∬": r"\iint", "∭": r"\iiint"}
ACCENTS = {"̂": r"\hat", "̃": r"\tilde", "̄": r"\bar", "⃗": r"\vec", "̇": r"\dot"}
FUNCS = ("sin", "cos", "tan", "log", "ln", "lim", "exp", "max", "min")
# names that are not one of the nine but begin with / end with / contain one, are a proper prefix of one, or differ in
# case: "other names", documented as rendered verbatim
NEAR_FUNCS = ("sinc", "cosec", "tanh", "login", "lnx", "limit", "expr", "maxima", "minimum", "arcsin", "argmax", "plim",
              "asinh", "relu max pool", "Sin", "LOG", "si", "ma")
DOC_BEG = ("(", "[", "{", "|")
DOC_END = (")", "]", "}", "|")
NOVAL = "<noval>"          # marker: property element present, m:val attribute absent

# structural vocabulary of the converter + containers it has no template for (falls through to recursion)
STRUCT = ("f", "sSub", "sSup", "sSubSup", "rad", "nary", "d", "m", "func", "bar", "acc")
CONTAINERS = {"limLow": ("e", "lim"), "limUpp": ("e", "lim"), "box": ("e",), "borderBox": ("e",),
              "groupChr": ("e",), "sPre": ("sub", "sup", "e"), "eqArr": ("e", "e"), "phant": ("e",)}
SLOTS = {"f": ("num", "den"), "sSub": ("e", "sub"), "sSup": ("e", "sup"), "sSubSup": ("e", "sub", "sup"),
         "func": ("fName", "e"), "bar": ("e",), "acc": ("e",)}

# Values a character- or enumeration-valued m:val can hold besides the ones the documentation shows: empty, blank,
# several characters, combining marks only, spacing forms of accents (NFKD-decomposable), a non-BMP character, LaTeX- and
# XML-special characters, zero-width, unknown enumeration words.  None has a documented rendering (clause 5 is not
# judged on them); totality, token order and brace balance are.  No value contains a brace or a token.
ODD_VALUES = ("", " ", "ab", "\u0301\u0308", "\U0001D6FC", "\u00af", "\u02dc", "\\", "&<\"'", "%", "\u200b", "zz", "on", "2", "^_$#")
_ODDSET = frozenset(ODD_VALUES)
# (element kind, property element whose m:val is varied, how): "opt" = an option of the spec, "ov" = generic override
ODD_ATTRS = (
    ("acc", "chr", "opt"), ("nary", "chr", "opt"), ("d", "begChr", "opt"), ("d", "endChr", "opt"), ("d", "sepChr", "opt"),
    ("groupChr", "chr", "ov"), ("groupChr", "pos", "ov"), ("groupChr", "vertJc", "ov"), ("bar", "pos", "ov"), ("f", "type", "ov"),
    ("rad", "degHide", "ov"), ("nary", "limLoc", "ov"), ("nary", "subHide", "ov"), ("nary", "supHide", "ov"),
    ("m", "count", "ov"), ("m", "mcJc", "ov"), ("sSup", "argSz", "ov"), ("r", "sty", "ov"),
)

# every operand container an element can have (m:d: any number of m:e); a spec may leave any of them out altogether
FULL_SLOTS = dict({"f": ("num", "den"), "sSub": ("e", "sub"), "sSup": ("e", "sup"), "sSubSup": ("e", "sub", "sup"), "rad": ("deg", "e"),
                   "nary": ("sub", "sup", "e"), "d": ("e",), "func": ("fName", "e"), "bar": ("e",), "acc": ("e",)},
                  **{k: tuple(dict.fromkeys(v)) for k, v in CONTAINERS.items()})

RISKY = {
    "nary-chr-without-val",
    "d-delimiter-chr-without-val",
    "two-malformed-radicals",
    "d-default-delimiter-over-nested-explicit-delimiter",
    "malformed-radical-under-rad-with-closing-bracket-in-degree",
}


_TRANS = str.maketrans(SYMBOLS)


def map_text(text: str) -> str:
    return text.translate(_TRANS)


# --------------------------------------------------------------------------------------------------
# spec constructors
# --------------------------------------------------------------------------------------------------
class Tokens:
    """Unique tokens q b NNNNN z: an output word identifies the run it came from."""

    def __init__(self, start: int = 1):
        self.n = start

    def __call__(self) -> str:
        t = f"qb{self.n:05d}z"
        self.n += 1
        return t


def R(text: str, p: int = 0, sp: int = 0, w: int = 0) -> dict:
    """run; p: 0 no properties, 1 m:rPr, 2 w:rPr, 3 both; sp: xml:space=preserve on the text element;
    w: which element carries the text — 0 ``<m:r><m:t>``, 1 ``<m:r><w:t>`` (CT_R of shared-math admits the
    WordprocessingML run content next to m:t), 2 ``<w:r><w:t>`` (a normal-text run inside the math zone)."""
    d = {"k": "r", "t": text, "p": p, "sp": sp}
    if w:
        d["w"] = w
    return d


def N(kind: str, opts: dict | None = None, slots: list | None = None, rows: list | None = None) -> dict:
    d = {"k": kind, "o": dict(opts or {}), "s": [[n, list(c)] for n, c in (slots or [])]}
    if rows is not None:
        d["rows"] = rows
    return d


def root(children: list, para: int = 0) -> dict:
    """para: 0 m:oMath; 1 m:oMathPara/m:oMath; 2 m:oMathPara with m:oMathParaPr"""
    return {"k": "root", "para": para, "c": list(children)}


# --------------------------------------------------------------------------------------------------
# XML writer
# --------------------------------------------------------------------------------------------------
_CTRLPR = ('<m:ctrlPr><w:rPr><w:rFonts w:ascii="Cambria Math" w:hAnsi="Cambria Math"/><w:i/>'
           '<w:color w:val="FF0000"/><w:sz w:val="24"/><w:szCs w:val="24"/></w:rPr></m:ctrlPr>')
_ARGPR = '<m:argPr><m:argSz m:val="1"/></m:argPr>'


def _val(tag: str, v) -> str:
    if v is None:
        return ""
    if v == NOVAL:
        return f"<m:{tag}/>"
    return f"<m:{tag} m:val={quoteattr(v)}/>"


def _override(xml: str, ov: dict | None, only: tuple | None = None) -> str:
    """Replace the m:val of the first ``<m:TAG .../>`` in ``xml`` for every TAG in ``ov`` (NOVAL: drop the attribute)."""
    for tag, v in (ov or {}).items():
        if only is not None and tag not in only:
            continue
        xml, n = re.subn(r'<m:%s(?: m:val="[^"]*")?/>' % re.escape(tag), lambda m: _val(tag, v), xml, count=1)
        if n != 1:
            raise ValueError(f"override of m:{tag}: the element is not written by this variant")
    return xml


def _children(nodes: list, ip: int, name: str = "e") -> str:
    out = []
    if ip:
        out.append(_ARGPR if name == "e" else _CTRLPR)
    for i, n in enumerate(nodes):
        if ip and i:
            out.append(_CTRLPR)
        out.append(_node(n))
    if ip and nodes:
        out.append(_CTRLPR)
    return "".join(out)


def _slot(name: str, nodes: list, ip: int) -> str:
    inner = _children(nodes, ip, name)
    return f"<m:{name}>{inner}</m:{name}>" if inner else f"<m:{name}/>"


def _node(n: dict) -> str:
    k = n["k"]
    if k == "r":
        pr = ""
        if n.get("p", 0) & 1:
            pr += _override('<m:rPr><m:sty m:val="p"/></m:rPr>', n.get("ov"))
        if n.get("p", 0) & 2:
            pr += '<w:rPr><w:rFonts w:ascii="Cambria Math" w:hAnsi="Cambria Math"/><w:i/><w:color w:val="00B050"/></w:rPr>'
        sp = ' xml:space="preserve"' if n.get("sp") else ""
        w = n.get("w", 0)
        if w == 1:
            return f"<m:r>{pr}<w:t{sp}>{escape(n['t'])}</w:t></m:r>"
        if w == 2:
            wpr = '<w:rPr><w:rFonts w:ascii="Cambria Math" w:hAnsi="Cambria Math"/><w:i/></w:rPr>' if n.get("p", 0) else ""
            return f"<w:r>{wpr}<w:t{sp}>{escape(n['t'])}</w:t></w:r>"
        return f"<m:r>{pr}<m:t{sp}>{escape(n['t'])}</m:t></m:r>"
    o = n["o"]
    ip = o.get("ip", 0)
    ctrl = _CTRLPR if o.get("pr") else ""
    slots = "".join(_slot(name, ch, ip) for name, ch in n["s"])
    ov = o.get("ov")
    if ov and "argSz" in ov:
        slots = _override(slots, ov, only=("argSz",))     # the first m:argPr written is this node's own
        ov = {t: v for t, v in ov.items() if t != "argSz"}
    if k == "f":
        pr = f'<m:fPr><m:type m:val="bar"/>{_CTRLPR}</m:fPr>' if o.get("pr") else ""
    elif k in ("sSub", "sSup", "sSubSup", "func") or k in CONTAINERS:
        inner = ctrl
        if k == "groupChr" and o.get("pr"):
            inner = '<m:chr m:val="⏟"/><m:pos m:val="bot"/><m:vertJc m:val="top"/>' + ctrl
        pr = f"<m:{k}Pr>{inner}</m:{k}Pr>" if o.get("pr") else ""
    elif k == "rad":
        p = o.get("pr", 0)     # 0 none, 1 radPr without degHide, 2 degHide=1, 3 degHide=0
        pr = {0: "", 1: f"<m:radPr>{_CTRLPR}</m:radPr>", 2: f'<m:radPr><m:degHide m:val="1"/>{_CTRLPR}</m:radPr>',
              3: '<m:radPr><m:degHide m:val="0"/></m:radPr>'}[p]
    elif k == "nary":
        if o.get("pr"):
            inner = _val("chr", o.get("chr"))
            if o.get("limLoc"):
                inner += '<m:limLoc m:val="undOvr"/>'
            if o.get("hide"):
                inner += '<m:subHide m:val="0"/><m:supHide m:val="0"/>'
            pr = f"<m:naryPr>{inner}{_CTRLPR if o.get('ctrl') else ''}</m:naryPr>"
        else:
            pr = ""
    elif k == "d":
        if o.get("pr"):
            inner = _val("begChr", o.get("beg")) + _val("sepChr", o.get("sep")) + _val("endChr", o.get("end"))
            pr = f"<m:dPr>{inner}{_CTRLPR if o.get('ctrl') else ''}</m:dPr>"
        else:
            pr = ""
    elif k == "m":
        pr = ('<m:mPr><m:mcs><m:mc><m:mcPr><m:count m:val="2"/><m:mcJc m:val="center"/></m:mcPr></m:mc></m:mcs>'
              f"{_CTRLPR}</m:mPr>") if o.get("pr") else ""
        rows = "".join("<m:mr>" + "".join(_slot("e", cell, ip) for cell in row) + "</m:mr>" for row in n["rows"])
        return f"<m:m>{_override(pr, ov)}{rows}</m:m>"
    elif k == "bar":
        p = o.get("pr", 0)     # 0 none, 1 pos=top, 2 pos=bot
        pr = {0: "", 1: f'<m:barPr><m:pos m:val="top"/>{_CTRLPR}</m:barPr>', 2: '<m:barPr><m:pos m:val="bot"/></m:barPr>'}[p]
    elif k == "acc":
        pr = f"<m:accPr>{_val('chr', o.get('chr'))}{_CTRLPR if o.get('ctrl') else ''}</m:accPr>" if o.get("pr") else ""
    else:
        raise ValueError(k)
    return f"<m:{k}>{_override(pr, ov)}{slots}</m:{k}>"


def to_xml(spec: dict) -> str:
    assert spec["k"] == "root"
    inner = "".join(_node(n) for n in spec["c"])
    if spec.get("para"):
        pr = '<m:oMathParaPr><m:jc m:val="center"/></m:oMathParaPr>' if spec["para"] == 2 else ""
        return f"<m:oMathPara {NSDECL}>{pr}<m:oMath>{inner}</m:oMath></m:oMathPara>"
    return f"<m:oMath {NSDECL}>{inner}</m:oMath>"


def build(spec: dict) -> ET.Element:
    return ET.fromstring(to_xml(spec))


# --------------------------------------------------------------------------------------------------
# walking specs
# --------------------------------------------------------------------------------------------------
def operand_lists(n: dict):
    """Yield every operand list (list of child nodes) of a structural node, in XML order."""
    if n["k"] == "r":
        return
    if n["k"] == "m":
        for row in n["rows"]:
            for cell in row:
                yield cell
        return
    for _, ch in n["s"]:
        yield ch


def walk(nodes: list):
    for n in nodes:
        yield n
        for ch in operand_lists(n):
            yield from walk(ch)


def descendants(n: dict):
    for ch in operand_lists(n):
        yield from walk(ch)


# --------------------------------------------------------------------------------------------------
# reference renderer / analysis
# --------------------------------------------------------------------------------------------------
class Analysis:
    __slots__ = ("expected", "alternatives", "unclaimed", "runs", "risky", "literal_brace", "malformed",
                 "kinds", "n_runs", "features", "symbols")

    def __init__(self):
        self.expected = None
        self.alternatives = []
        self.unclaimed = set()
        self.runs = []              # mapped texts of the runs that carry a unique token, document order
        self.risky = set()
        self.literal_brace = False
        self.malformed = 0
        self.kinds = set()
        self.n_runs = 0
        self.features = set()
        self.symbols = set()        # mapped source characters met in run texts


def _has_token(text: str) -> bool:
    i = text.find("qb")
    return i >= 0 and len(text) >= i + 8 and text[i + 7] == "z" and text[i + 2:i + 7].isdigit()


def _render(nodes: list, a: Analysis, noval_as_default: bool, collect: bool) -> str:
    return "".join(_render1(n, a, noval_as_default, collect) for n in nodes)


def _render1(n: dict, a: Analysis, nd: bool, collect: bool) -> str:
    k = n["k"]
    if k == "r":
        t = n["t"]
        if collect:
            a.n_runs += 1
            if "{" in t or "}" in t:
                a.literal_brace = True
            if _has_token(t):
                a.runs.append(map_text(t))
            if n.get("p"):
                a.features.add("run-with-rPr")
            if n.get("w"):
                a.features.add("run:text-in-" + ("w:t-of-m:r" if n["w"] == 1 else "w:r"))
            for tag in (n.get("ov") or {}):
                a.features.add(f"odd:r.{tag}")
                a.unclaimed.add("odd-attribute-value")
            sy = [c for c in t if c in SYMBOLS]
            if sy:
                a.features.add("mapped-symbol")
                a.symbols.update(sy)
            if any(c in "()[]|" for c in t):
                a.features.add("bracket-text")
        return map_text(t)
    o = n["o"]
    if collect:
        a.kinds.add(k)
        if o.get("ip"):
            a.features.add("props-interleaved")
        for tag in (o.get("ov") or {}):
            a.features.add(f"odd:{k}.{tag}")
            a.unclaimed.add("odd-attribute-value")
        for key, tag in (("chr", "chr"), ("beg", "begChr"), ("end", "endChr"), ("sep", "sepChr")):
            if k in ("acc", "nary", "d") and o.get(key) in _ODDSET:
                a.features.add(f"odd:{k}.{tag}")
    rs = lambda name_or_nodes: _render(name_or_nodes, a, nd, collect)
    if k == "m":
        if collect and not n["rows"]:
            a.features.add("no-child-element" if not o.get("pr") else "operand-absent")
            a.unclaimed.add("m:no-rows")          # the converter recognises a matrix by its m:mr; nothing is documented for none
        rows = [" & ".join(rs(cell) for cell in row) for row in n["rows"]]
        return r"\begin{matrix}" + r" \\ ".join(rows) + r"\end{matrix}"
    S, marks = [], []                                     # rendered in XML order == output order
    for name, ch in n["s"]:
        m0 = a.malformed
        S.append((name, rs(ch)))
        marks.append(a.malformed - m0)
    by = {}
    for name, txt in S:
        by.setdefault(name, []).append(txt)
    g = lambda name: by.get(name, [""])[0]
    if collect and any(nm not in by for nm in FULL_SLOTS[k]):
        # an operand container that is not there contributes what an empty one does: nothing (process_element(None))
        a.features.add("operand-absent")
        if not n["s"] and not o.get("pr"):
            a.features.add("no-child-element")
    if k == "f":
        return rf"\frac{{{g('num')}}}{{{g('den')}}}"
    if k == "sSup":
        return f"{g('e')}^{{{g('sup')}}}"
    if k == "sSub":
        return f"{g('e')}_{{{g('sub')}}}"
    if k == "sSubSup":
        return f"{g('e')}_{{{g('sub')}}}^{{{g('sup')}}}"
    if k == "rad":
        deg = g("deg").strip()
        e = g("e")
        if collect:
            if e.strip() in ("(", "[", "{"):
                a.malformed += 1
            # the converter evaluates m:e before m:deg but prints m:deg first
            if any(mk for (name, _), mk in zip(n["s"], marks) if name == "e") and any(
                    d["k"] == "r" and any(c in d["t"] for c in ")]}") for name, ch in n["s"] if name == "deg" for d in walk(ch)):
                a.risky.add("malformed-radical-under-rad-with-closing-bracket-in-degree")
            if deg and o.get("pr") == 2:
                a.unclaimed.add("rad:degHide-with-nonempty-degree")
            a.features.add("rad:" + ("deg" if deg else ("emptydeg" if "deg" in by else "nodeg")) + f":pr{o.get('pr', 0)}")
        return rf"\sqrt[{deg}]{{{e}}}" if deg else rf"\sqrt{{{e}}}"
    if k == "nary":
        c = o.get("chr")
        if collect:
            a.features.add("nary:chr=" + ("none" if c is None else "noval" if c == NOVAL else "val"))
            a.features.add("nary:sub=" + ("absent" if "sub" not in by else "empty" if not g("sub").strip() else "set"))
            a.features.add("nary:sup=" + ("absent" if "sup" not in by else "empty" if not g("sup").strip() else "set"))
            if c == NOVAL:
                a.risky.add("nary-chr-without-val")
                a.unclaimed.add("nary:operator-undefined-for-chr-without-val")
            elif c is None:
                a.unclaimed.add("nary:operator-undefined-without-chr")
                if any(d["k"] != "r" and d["o"].get("chr") == NOVAL for d in descendants(n)):
                    a.risky.add("nary-chr-without-val")     # the converter looks chr up among descendants
            elif c not in NARY_OPS:
                a.unclaimed.add("nary:operator-not-documented")
        op = NARY_OPS.get(c, "?")
        out = op
        if g("sub").strip():
            out += f"_{{{g('sub')}}}"
        if g("sup").strip():
            out += f"^{{{g('sup')}}}"
        return out + " " + g("e")
    if k == "d":
        beg, end = o.get("beg"), o.get("end")
        if collect:
            a.features.add("d:beg=" + ("none" if beg is None else "noval" if beg == NOVAL else "empty" if beg == "" else "val"))
            a.features.add("d:end=" + ("none" if end is None else "noval" if end == NOVAL else "empty" if end == "" else "val"))
            a.features.add(f"d:e={len(by.get('e', []))}")
            if NOVAL in (beg, end):
                a.risky.add("d-delimiter-chr-without-val")
            for v in (beg, end):
                if v not in (None, NOVAL):
                    if "{" in v or "}" in v:
                        a.literal_brace = True
            # m:val="" (one-sided / invisible delimiter) is an instance of the documented form "beg e1, e2 end" with
            # the value the source gives: there is no character whose LaTeX spelling could be in question
            if (beg not in (None, NOVAL, "") and beg not in DOC_BEG) or (end not in (None, NOVAL, "") and end not in DOC_END):
                a.unclaimed.add("d:delimiter-character-not-documented")
            if o.get("sep") is not None and len(by.get("e", [])) > 1:
                a.unclaimed.add("d:sepChr-not-documented")
            for d in descendants(n):
                if d["k"] == "d" and ((beg is None and d["o"].get("beg") is not None) or (end is None and d["o"].get("end") is not None)):
                    a.risky.add("d-default-delimiter-over-nested-explicit-delimiter")
                    break
        left = "(" if beg is None else (("(" if nd else "") if beg == NOVAL else beg)
        right = ")" if end is None else ((")" if nd else "") if end == NOVAL else end)
        return left + ", ".join(by.get("e", [])) + right
    if k == "func":
        name_nodes = next((ch for nm_, ch in n["s"] if nm_ == "fName"), [])
        name = g("fName")
        nm = name.strip()
        plain = all(x["k"] == "r" for x in name_nodes)
        scripted = all(x["k"] == "r" or (x["k"] in ("sSub", "sSup", "sSubSup") and all(y["k"] == "r" for _, ch in x["s"] for y in ch))
                       for x in name_nodes)
        if collect:
            low = nm.lower()
            a.features.add("func:name=" + ("known" if nm in FUNCS else "near-miss" if any(f in low for f in FUNCS) else "other"))
        if len(name_nodes) == 1 and plain:
            if nm in FUNCS:
                name = "\\" + nm
        elif len(name_nodes) >= 2 and plain:
            # the name is the text of m:fName; "other names verbatim".  Whether one of the nine names is recognised
            # across run boundaries ('s' + 'in') is not documented.
            if collect:
                a.features.add("func:name-split-over-runs")
                if nm in FUNCS:
                    a.unclaimed.add("func:known-name-split-over-runs")
        elif name_nodes and scripted:
            # Word keeps scripts inside m:fName (sin^{2}, log_{2}).  A known name followed by a script may stay verbatim
            # or become the command (not documented); a name that merely begins like a known one is "another name".
            if collect:
                a.features.add("func:name-with-script")
                if any(nm.startswith(f) and not nm[len(f):len(f) + 1].isalpha() for f in FUNCS):
                    a.unclaimed.add("func:known-name-with-script")
        else:
            if collect:
                a.unclaimed.add("func:structured-or-split-name")
        return f"{name}{{{g('e')}}}"
    if k == "bar":
        if collect and o.get("pr") == 2:
            a.unclaimed.add("bar:pos=bot-not-documented")
        return rf"\overline{{{g('e')}}}"
    if k == "acc":
        c = o.get("chr")
        if collect:
            a.features.add("acc:chr=" + ("none" if c is None else "noval" if c == NOVAL else "val"))
            if c is None or c == NOVAL:
                a.unclaimed.add("acc:accent-undefined-without-chr-value")
            elif len(c) != 1 or c in _ODDSET:
                a.unclaimed.add("acc:chr-value-not-a-documented-accent-character")
        return ACCENTS.get(c, r"\hat") + f"{{{g('e')}}}"
    if k in CONTAINERS:
        if collect:
            a.unclaimed.add("container-without-documented-template")
        return "".join(txt for _, txt in S)
    raise ValueError(k)


def analyse(spec: dict) -> Analysis:
    a = Analysis()
    exp = _render(spec["c"], a, True, True)
    alt = _render(spec["c"], a, False, False) if "d-delimiter-chr-without-val" in a.risky else exp
    if a.malformed >= 2:
        a.risky.add("two-malformed-radicals")
    if a.malformed:
        a.features.add("malformed-radical")
    if spec.get("para"):
        a.features.add("oMathPara-root")
    a.expected = exp
    a.alternatives = [exp] if alt == exp else [exp, alt]
    return a


def norm_ws(s: str) -> str:
    """Drop insignificant whitespace: a blank matters only between two letters (it ends a control word)."""
    out = []
    n = len(s)
    i = 0
    while i < n:
        c = s[i]
        if c.isspace():
            j = i
            while j < n and s[j].isspace():
                j += 1
            if out and j < n and out[-1].isalpha() and s[j].isalpha():
                out.append(" ")
            i = j
            continue
        out.append(c)
        i += 1
    return "".join(out)


def braces_balanced(s: str) -> bool:
    d = 0
    for c in s:
        if c == "{":
            d += 1
        elif c == "}":
            d -= 1
            if d < 0:
                return False
    return d == 0


def ordered_once(runs: list[str], out: str):
    """Every mapped run text appears as a whole, once, in source order.  Returns (ok, symptom, detail)."""
    pos = 0
    for i, r in enumerate(runs):
        tok = r[r.find("qb"):r.find("qb") + 8]
        c = out.count(tok)
        if c == 0:
            return False, "token-lost", f"run #{i} {r!r}: token {tok} absent"
        if c > 1:
            return False, "token-duplicated", f"run #{i} {r!r}: token {tok} appears {c} times"
        j = out.find(r, pos)
        if j < 0:
            if out.find(r) >= 0:
                return False, "token-reordered", f"run #{i} {r!r} appears before its predecessor"
            return False, "run-text-altered", f"run #{i}: token {tok} present but mapped text {r!r} is not"
        pos = j + len(r)
    return True, "", ""


# --------------------------------------------------------------------------------------------------
# control twins
# --------------------------------------------------------------------------------------------------
def fill_absent(spec: dict) -> dict:
    """The same tree with every operand container that is left out present but empty (appended after the existing ones)."""
    t = _copy(spec)
    for n in walk(t["c"]):
        if n["k"] in FULL_SLOTS:
            have = {nm for nm, _ in n["s"]}
            n["s"].extend([nm, []] for nm in FULL_SLOTS[n["k"]] if nm not in have)
    return t


def _copy(x):
    if isinstance(x, dict):
        return {k: _copy(v) for k, v in x.items()}
    if isinstance(x, list):
        return [_copy(v) for v in x]
    return x


def twin(spec: dict, feature: str, tok: Tokens) -> dict:
    """The same tree with the risky feature replaced by its benign form."""
    t = _copy(spec)
    if feature == "nary-chr-without-val":
        for n in walk(t["c"]):
            if n["k"] != "r" and n["o"].get("chr") == NOVAL:
                n["o"]["chr"] = "∑" if n["k"] == "nary" else "̂"
    elif feature == "d-delimiter-chr-without-val":
        for n in walk(t["c"]):
            if n["k"] == "d":
                if n["o"].get("beg") == NOVAL:
                    n["o"]["beg"] = "("
                if n["o"].get("end") == NOVAL:
                    n["o"]["end"] = ")"
    elif feature == "two-malformed-radicals":
        seen = 0
        for n in walk(t["c"]):
            if n["k"] == "rad":
                e = [ch for name, ch in n["s"] if name == "e"][0]
                # "operand = lone opening bracket" is a statement about the operand's rendering: a single run "(" is
                # the usual spelling, an m:d with begChr "(" and an empty endChr around nothing is another one
                if _render(e, Analysis(), True, False).strip() in ("(", "[", "{"):
                    seen += 1
                    if seen > 1:
                        e[:] = [R(tok())]
    elif feature == "malformed-radical-under-rad-with-closing-bracket-in-degree":
        for n in walk(t["c"]):
            if n["k"] == "rad":
                for name, ch in n["s"]:
                    if name == "deg":
                        for d in walk(ch):
                            if d["k"] == "r":
                                d["t"] = d["t"].replace(")", "+").replace("]", "+").replace("}", "+")
    elif feature == "d-default-delimiter-over-nested-explicit-delimiter":
        for n in walk(t["c"]):
            if n["k"] == "d" and (n["o"].get("beg") is None or n["o"].get("end") is None):
                n["o"]["pr"] = 1
                if n["o"].get("beg") is None:
                    n["o"]["beg"] = "("
                if n["o"].get("end") is None:
                    n["o"]["end"] = ")"
    else:
        raise ValueError(feature)
    return t


# --------------------------------------------------------------------------------------------------
# variants: every optional child / attribute present or absent
# --------------------------------------------------------------------------------------------------
def variants(kind: str, full: bool = True):
    """Yield (opts, shape) for ``kind``.  shape: list of slot names (or for 'm' a (rows, cols) tuple)."""
    if kind in ("f", "sSub", "sSup", "sSubSup"):
        for pr in (0, 1):
            yield {"pr": pr}, list(SLOTS[kind])
    elif kind == "rad":
        for pr in (0, 1, 2, 3):
            for deg in ("absent", "empty", "set"):
                yield {"pr": pr, "deg": deg}, (["e"] if deg == "absent" else ["deg", "e"])
    elif kind == "nary":
        chrs = [(0, None), (1, None), (1, NOVAL), (1, "∑"), (1, "∫"), (1, "∏"), (1, "∬"), (1, "∭"), (1, "⋃")]
        lims = ("absent", "empty", "set")
        for pr, c in chrs:
            for sub in lims:
                for sup in lims:
                    for extra in ((0, 1) if full and pr and c in ("∑", None) else (0,)):
                        o = {"pr": pr, "chr": c, "sub": sub, "sup": sup}
                        if extra:
                            o.update(limLoc=1, hide=1, ctrl=1)
                        yield o, ([] if sub == "absent" else ["sub"]) + ([] if sup == "absent" else ["sup"]) + ["e"]
    elif kind == "d":
        begs = (None, NOVAL, "", "(", "[", "{", "|")       # absent / present without m:val / present and empty / documented characters
        ends = (None, NOVAL, "", ")", "]", "}", "|")
        for ne in (1, 2):
            yield {"pr": 0, "beg": None, "end": None}, ["e"] * ne
            for b in begs:
                for e in ends:
                    yield {"pr": 1, "beg": b, "end": e, "ctrl": 1 if (b is None) == (e is None) else 0}, ["e"] * ne
        yield {"pr": 1, "beg": "(", "end": ")", "sep": "|"}, ["e", "e"]
        yield {"pr": 1, "beg": "⟨", "end": "⟩"}, ["e"]
        yield {"pr": 1, "beg": "(", "end": ")"}, ["e", "e", "e"]
    elif kind == "m":
        for pr in (0, 1):
            for shape in ((1, 1), (1, 2), (2, 1), (2, 2)):
                yield {"pr": pr}, shape
        yield {"pr": 0}, (3, 3)
    elif kind == "func":
        for pr in (0, 1):
            for name in FUNCS + ("<token>",):
                yield {"pr": pr, "name": name}, ["fName", "e"]
    elif kind == "bar":
        for pr in (0, 1, 2):
            yield {"pr": pr}, ["e"]
    elif kind == "acc":
        yield {"pr": 0, "chr": None}, ["e"]
        for c in (None, NOVAL, "?") + tuple(ACCENTS):
            yield {"pr": 1, "chr": c, "ctrl": 1 if c in (None, "̂") else 0}, ["e"]
    elif kind in CONTAINERS:
        for pr in (0, 1):
            yield {"pr": pr}, list(CONTAINERS[kind])
    else:
        raise ValueError(kind)


CANON = {
    "f": {"pr": 1}, "sSub": {"pr": 1}, "sSup": {"pr": 0}, "sSubSup": {"pr": 1},
    "rad": {"pr": 2, "deg": "empty"}, "nary": {"pr": 1, "chr": "∑", "sub": "set", "sup": "set"},
    "d": {"pr": 1, "beg": "[", "end": "]"}, "m": {"pr": 1}, "func": {"pr": 1, "name": "sin"},
    "bar": {"pr": 0}, "acc": {"pr": 1, "chr": "̃"},
}


def canon_variant(kind: str):
    if kind in CONTAINERS:
        return {"pr": 1}, list(CONTAINERS[kind])
    o = dict(CANON[kind])
    if kind == "rad":
        return o, ["deg", "e"]
    if kind == "nary":
        return o, ["sub", "sup", "e"]
    if kind == "d":
        return o, ["e", "e"]
    if kind == "m":
        return o, (2, 2)
    if kind == "func":
        return o, ["fName", "e"]
    return o, list(SLOTS[kind])


def reduced_variants(kind: str):
    """Canonical variant + the variants that differ from it in exactly one option (one-factor-at-a-time)."""
    co, cs = canon_variant(kind)
    seen = set()
    for o, s in [(co, cs)] + list(variants(kind, full=False)):
        diff = sum(1 for key in set(o) | set(co) if o.get(key) != co.get(key) and key not in ("ctrl",))
        if kind == "nary" and o.get("pr") == 0:
            diff -= 1 if co.get("chr") != o.get("chr") else 0
        if diff <= 1 or (kind == "d" and o.get("pr") == 0):
            key = repr((sorted(o.items(), key=repr), s))
            if key not in seen:
                seen.add(key)
                yield o, s


class Filler:
    """Fills operand slots of a variant: ``fill(slotname, index)`` -> list of nodes."""

    def __init__(self, tok: Tokens, rng=None):
        self.tok = tok
        self.rng = rng
        self._sym = itertools.cycle(SYMBOL_CHARS)

    def leaf(self, style: int = 0) -> dict:
        t = self.tok()
        if style == 1:
            t = t + next(self._sym)
        elif style == 2:
            t = next(self._sym) + t
        elif style == 3:
            t = "(" + t + "+" + next(self._sym) + ")"
        elif style in (4, 5):        # text carried by a WordprocessingML element (see R)
            return R(t, p=style % 2 * 2, w=style - 3)
        return R(t, p=style % 4 if style else 0)


def make(kind: str, opts: dict, shape, fill, ip: int = 0) -> dict:
    """Instantiate one variant.  ``fill(kind, slotname, i)`` returns the node list of operand i."""
    o = {k: v for k, v in opts.items() if k not in ("deg", "sub", "sup", "name")}
    if ip:
        o["ip"] = 1
    if kind == "m":
        r, c = shape
        rows = [[fill(kind, "e", i * c + j) for j in range(c)] for i in range(r)]
        return N(kind, o, [], rows=rows)
    slots = []
    for i, name in enumerate(shape):
        if kind == "rad" and name == "deg" and opts.get("deg") == "empty":
            slots.append([name, []])
        elif kind == "nary" and name in ("sub", "sup") and opts.get(name) == "empty":
            slots.append([name, []])
        elif kind == "func" and name == "fName" and opts.get("name") not in (None, "<token>"):
            slots.append([name, [R(opts["name"], p=i % 2)]])
        else:
            slots.append([name, fill(kind, name, i)])
    return N(kind, o, slots)


def slot_count(kind: str, shape) -> int:
    return shape[0] * shape[1] if kind == "m" else len(shape)


# --------------------------------------------------------------------------------------------------
# random deeper trees
# --------------------------------------------------------------------------------------------------
def random_text(rng, tok: Tokens, braces: bool = False) -> str:
    parts = [tok()]
    for _ in range(rng.choice((0, 0, 1, 1, 2, 3))):
        c = rng.random()
        if c < 0.45:
            parts.insert(rng.randrange(len(parts) + 1), rng.choice(SYMBOL_CHARS))
        elif c < 0.6:
            parts.append(rng.choice(("+", "-", "=", ",", "2", " + ", "!", "<", "&", "'", '"', "\\")) + tok())
        elif c < 0.8:
            b = rng.choice(("()", "[]", "||", ")(", "(", ")", "]", "["))
            parts = [b[0]] + parts + [b[1:]]
        elif c < 0.9 and braces:
            parts.append(rng.choice(("{", "}", "{}")))
        else:
            parts.append(" ")
    return "".join(parts)


def random_operand(rng, tok, depth: int, width: int, risky: str | None, braces: bool) -> list:
    n = rng.choice((0, 1, 1, 1, 2, 2, 3)[: 4 + min(width, 3)])
    out = []
    for _ in range(n):
        if depth <= 0 or rng.random() < 0.35:
            out.append(R(random_text(rng, tok, braces), p=rng.choice((0, 0, 1, 2, 3)), sp=rng.choice((0, 0, 1)), w=rng.choice(_W_MIX)))
        else:
            out.append(random_node(rng, tok, depth, width, risky, braces))
    return out


def random_node(rng, tok, depth: int, width: int, risky: str | None = None, braces: bool = False,
                containers: bool = True) -> dict:
    """A random structural node of height <= depth made of clean options only (risky ones are planted later)."""
    kinds = list(STRUCT) + (list(CONTAINERS) if containers and rng.random() < 0.15 else [])
    kind = rng.choice(kinds)
    allv = _CLEANV.get(kind)
    if allv is None:
        allv = _CLEANV[kind] = [v for v in variants(kind) if _clean_variant(kind, v[0])]
    opts, shape = rng.choice(allv)
    if kind == "func" and opts.get("name") == "<token>" and rng.random() < 0.5:
        opts = dict(opts, name=rng.choice(NEAR_FUNCS))
    if kind == "d":
        # clean trees: every m:d spells out both delimiters unless nothing below it is a delimiter (checked by caller)
        opts = dict(opts)
    fill = lambda k, name, i: random_operand(rng, tok, depth - 1, width, risky, braces)
    return make(kind, opts, shape, fill, ip=rng.choice((0, 0, 1)))


_CLEANV: dict = {}
_W_MIX = (0, 0, 0, 0, 0, 0, 1, 2)      # which element carries a random run's text (see R)


def _clean_variant(kind: str, o: dict) -> bool:
    return NOVAL not in (o.get("chr"), o.get("beg"), o.get("end"))


def random_tree(rng, tok, depth: int, width: int = 3, braces: bool = False) -> dict:
    top = []
    for _ in range(rng.choice((1, 1, 2, 3))):
        if rng.random() < 0.25:
            top.append(R(random_text(rng, tok, braces), p=rng.choice((0, 1, 2, 3)), w=rng.choice(_W_MIX)))
        else:
            top.append(random_node(rng, tok, depth, width, None, braces))
    return root(top, para=rng.choice((0, 0, 0, 1, 2)))


def height(nodes: list) -> int:
    h = 0
    for n in nodes:
        if n["k"] == "r":
            continue
        h = max(h, 1 + max((height(ch) for ch in operand_lists(n)), default=0))
    return h


def count_nodes(spec: dict) -> int:
    return sum(1 for _ in walk(spec["c"]))


# --------------------------------------------------------------------------------------------------
# embedding into minimal .docx / .pptx (own XML + zipfile)
# --------------------------------------------------------------------------------------------------
_CT_DOCX = ('<?xml version="1.0" encoding="UTF-8" standalone="yes"?>'
            '<Types xmlns="http://schemas.openxmlformats.org/package/2006/content-types">'
            '<Default Extension="rels" ContentType="application/vnd.openxmlformats-package.relationships+xml"/>'
            '<Default Extension="xml" ContentType="application/xml"/>'
            '<Override PartName="/word/document.xml" ContentType="application/vnd.openxmlformats-officedocument.wordprocessingml.document.main+xml"/>'
            '</Types>')
_RELS_DOCX = ('<?xml version="1.0" encoding="UTF-8" standalone="yes"?>'
              '<Relationships xmlns="http://schemas.openxmlformats.org/package/2006/relationships">'
              '<Relationship Id="rId1" Type="http://schemas.openxmlformats.org/officeDocument/2006/relationships/officeDocument" Target="word/document.xml"/>'
              '</Relationships>')
_EMPTY_RELS = ('<?xml version="1.0" encoding="UTF-8" standalone="yes"?>'
               '<Relationships xmlns="http://schemas.openxmlformats.org/package/2006/relationships"/>')


def _zip(members: list[tuple[str, str]]) -> bytes:
    buf = io.BytesIO()
    with zipfile.ZipFile(buf, "w", zipfile.ZIP_DEFLATED) as z:
        for name, data in members:
            z.writestr(name, data.encode("utf-8"))
    return buf.getvalue()


def docx_bytes(formulas: list[tuple[str, bool]], words: list[str]) -> bytes:
    """formulas: (omml xml of an m:oMath, display?) — one paragraph each, preceded by a text run."""
    paras = []
    for i, (xml, display) in enumerate(formulas):
        w = words[i % len(words)]
        if display:
            inner = f'<m:oMathPara xmlns:m="{M_URI}">{xml}</m:oMathPara>'
        else:
            inner = xml
        paras.append(f'<w:p><w:r><w:t xml:space="preserve">{w} </w:t></w:r>{inner}</w:p>')
    doc = ('<?xml version="1.0" encoding="UTF-8" standalone="yes"?>'
           f'<w:document xmlns:w="{W_URI}" xmlns:m="{M_URI}"><w:body>' + "".join(paras) +
           '<w:sectPr/></w:body></w:document>')
    return _zip([("[Content_Types].xml", _CT_DOCX), ("_rels/.rels", _RELS_DOCX),
                 ("word/document.xml", doc), ("word/_rels/document.xml.rels", _EMPTY_RELS)])


_P = "http://schemas.openxmlformats.org/presentationml/2006/main"
_A = "http://schemas.openxmlformats.org/drawingml/2006/main"
_RNS = "http://schemas.openxmlformats.org/officeDocument/2006/relationships"


def pptx_bytes(slides: list[list[tuple[str, bool]]], words: list[str]) -> bytes:
    """slides: per slide a list of (omml xml of an m:oMath, display?) — one text box per formula."""
    members = []
    ct = ['<?xml version="1.0" encoding="UTF-8" standalone="yes"?>'
          '<Types xmlns="http://schemas.openxmlformats.org/package/2006/content-types">'
          '<Default Extension="rels" ContentType="application/vnd.openxmlformats-package.relationships+xml"/>'
          '<Default Extension="xml" ContentType="application/xml"/>'
          '<Override PartName="/ppt/presentation.xml" ContentType="application/vnd.openxmlformats-officedocument.presentationml.presentation.main+xml"/>']
    rels = ['<?xml version="1.0" encoding="UTF-8" standalone="yes"?>'
            '<Relationships xmlns="http://schemas.openxmlformats.org/package/2006/relationships">']
    ids = []
    wi = 0
    for si, formulas in enumerate(slides, start=1):
        ct.append(f'<Override PartName="/ppt/slides/slide{si}.xml" ContentType="application/vnd.openxmlformats-officedocument.presentationml.slide+xml"/>')
        rels.append(f'<Relationship Id="rId{si}" Type="http://schemas.openxmlformats.org/officeDocument/2006/relationships/slide" Target="slides/slide{si}.xml"/>')
        ids.append(f'<p:sldId id="{255 + si}" r:id="rId{si}"/>')
        shapes = []
        for fi, (xml, display) in enumerate(formulas):
            w = words[wi % len(words)]
            wi += 1
            math = f'<m:oMathPara xmlns:m="{M_URI}">{xml}</m:oMathPara>' if display else xml
            shapes.append(
                f'<p:sp><p:nvSpPr><p:cNvPr id="{fi + 2}" name="TextBox {fi + 1}"/><p:cNvSpPr txBox="1"/><p:nvPr/></p:nvSpPr>'
                f'<p:spPr><a:xfrm><a:off x="100" y="{(fi + 1) * 1000}"/><a:ext cx="5000" cy="500"/></a:xfrm></p:spPr>'
                f'<p:txBody><a:bodyPr/><a:p><a:r><a:t>{w}</a:t></a:r>'
                '<mc:AlternateContent xmlns:mc="http://schemas.openxmlformats.org/markup-compatibility/2006">'
                '<mc:Choice xmlns:a14="http://schemas.microsoft.com/office/drawing/2010/main" Requires="a14">'
                f'<a14:m>{math}</a14:m></mc:Choice></mc:AlternateContent></a:p></p:txBody></p:sp>')
        members.append((f"ppt/slides/slide{si}.xml",
                        '<?xml version="1.0" encoding="UTF-8" standalone="yes"?>'
                        f'<p:sld xmlns:p="{_P}" xmlns:a="{_A}" xmlns:r="{_RNS}" xmlns:m="{M_URI}"><p:cSld><p:spTree>'
                        '<p:nvGrpSpPr><p:cNvPr id="1" name=""/><p:cNvGrpSpPr/><p:nvPr/></p:nvGrpSpPr><p:grpSpPr/>'
                        + "".join(shapes) + '</p:spTree></p:cSld></p:sld>'))
        members.append((f"ppt/slides/_rels/slide{si}.xml.rels", _EMPTY_RELS))
    ct.append("</Types>")
    rels.append("</Relationships>")
    pres = ('<?xml version="1.0" encoding="UTF-8" standalone="yes"?>'
            f'<p:presentation xmlns:p="{_P}" xmlns:a="{_A}" xmlns:r="{_RNS}"><p:sldIdLst>' + "".join(ids) +
            '</p:sldIdLst></p:presentation>')
    top = ('<?xml version="1.0" encoding="UTF-8" standalone="yes"?>'
           '<Relationships xmlns="http://schemas.openxmlformats.org/package/2006/relationships">'
           '<Relationship Id="rId1" Type="http://schemas.openxmlformats.org/officeDocument/2006/relationships/officeDocument" Target="ppt/presentation.xml"/>'
           '</Relationships>')
    return _zip([("[Content_Types].xml", "".join(ct)), ("_rels/.rels", top), ("ppt/presentation.xml", pres),
                 ("ppt/_rels/presentation.xml.rels", "".join(rels))] + members)
