"""Hand-written RTF writer with ground truth."""
from __future__ import annotations

import random

from .expect import Expect
from .ooxml import _rand_image
from .tokens import Tokens
from . import images as IMG
from ..obs import sha1

RTF_FEATURES = {
    "cells-on-one-source-line": "table row written on one source line: A\\cell B\\cell\\row (twin: a line break after every \\cell)",
    "blank-page": "two consecutive \\page (an empty page in the middle) (twin: single \\page)",
    "image-only-page": "a page whose only content is a picture (twin: picture plus a paragraph)",
    "adjacent-tables": "two tables separated by a short paragraph (< 100 raw RTF characters / < 20 text characters) (twin: a long paragraph)",
    "hex-cp1252-range": "\\'80 (euro sign in cp1252) inside a paragraph (twin: \\'e9)",
    "surrogate-pair": "non-BMP character as \\u-10179?\\u-8704? (twin: BMP character \\u8364?)",
    "pict-hex-wrapped": "picture hex data wrapped into 64-character lines (twin: one line)",
    "lone-surrogate-escape": "a \\uN escape holding a trail surrogate without its lead (a cut-off emoji) (twin: the complete pair)",
    "picture-only-document": "the whole document is one picture, no text and no page break (twin: a paragraph follows the picture)",
    "u-control-words": "control words that begin with the letter u but are not \\uN escapes: \\uc1, \\ul, \\ulnone, \\up6, \\uldb (twin: \\b, \\i0, \\dn6, \\strike)",
    "unicode-with-hex-fallback": "\\u8364\\'80 (unicode escape followed by its \\'hh fallback) (twin: \\u8364?)",
}


def build_rtf(seed: int, feature: str | None = None, twin: bool = False):
    rng = random.Random(f"rtf:{seed}")
    tk = Tokens()
    exp = Expect("rtf")
    exp.unit_mode = "exact"
    exp.tables_claimed = True
    exp.images_claimed = True
    # every visible non-token string this writer puts into body text (footnote words, escapes); field instructions, bookmark names,
    # object data and font names are not visible text
    exp.literals = ["1", "some words of a footnote, long enough to matter", "€", "é", "\U0001F600", "https://example.org/", "https://example.org/n", "C:\\temp\\", "C", "temp"]
    if feature:
        exp.features.add(feature if not twin else feature + "#twin")
    risky = feature if not twin else None
    meta = {k: exp.ignore(tk.new("t")) for k in ("title", "author", "subject", "keywords", "description")}
    exp.meta = dict(meta)
    out = ["{\\rtf1\\ansi\\ansicpg1252\\deff0\n{\\fonttbl{\\f0\\fswiss Helvetica;}}\n{\\colortbl;\\red0\\green0\\blue0;}\n",
           "{\\info{\\title %s}{\\author %s}{\\subject %s}{\\keywords %s}{\\doccomm %s}{\\creatim\\yr2024\\mo1\\dy2\\hr3\\min4}}\n"
           % (meta["title"], meta["author"], meta["subject"], meta["keywords"], meta["description"]),
           "{\\header \\pard %s\\par}\n{\\footer \\pard %s\\par}\n" % (exp.out(tk.new("f")), exp.out(tk.new("f")))]
    if feature == "picture-only-document":
        wpx, hpx = rng.randint(2, 40), rng.randint(2, 40)
        data = IMG.make("png", wpx, hpx, rng.randrange(1 << 16))
        exp.images.append({"sha": sha1(data), "ctype": "image/png", "w": None, "h": None, "unit": 1})
        pic = "{\\pict\\pngblip\\picw%d\\pich%d\\picwgoal%d\\pichgoal%d %s}" % (wpx, hpx, wpx * 15, hpx * 15, data.hex())
        out.append(pic if rng.random() < 0.5 else "\\pard " + pic + "\\par\n")
        if twin:
            out.append("\\pard " + exp.text(tk.new("b"), 0) + "\\par\n")
        out.append("}")
        exp.n_units = 1
        return "".join(out).encode("ascii"), exp
    n_pages = rng.randint(1, 5)
    if feature in ("blank-page", "image-only-page"):
        n_pages = max(3, n_pages)
    fpage = rng.randrange(n_pages)
    n_img = 0
    brk_rng = random.Random(f"rtf-breaks:{seed}")
    fn_rng = random.Random(f"rtf-footnotes:{seed}")
    esc_rng = random.Random(f"rtf-escapes:{seed}")
    tbl_rng = random.Random(f"rtf-rows:{seed}")
    lit_rng = random.Random(f"rtf-literals:{seed}")
    pos = 0   # source page position (a blank page occupies a position)
    for p in range(n_pages):
        def w(cls, lo=1, hi=3):
            return [exp.text(tk.new(cls), pos) for _ in range(rng.randint(lo, hi))]

        def para(long=False):
            n = 14 if long else rng.randint(1, 3)   # 'long' = well over the 100 raw characters below which the reader merges neighbouring tables
            parts = []
            for _ in range(n):
                k = rng.random()
                if k < 0.6:
                    parts.append(" ".join(w("b")))
                elif k < 0.7:
                    parts.append("{\\b " + " ".join(w("b", 1, 2)) + "}")
                elif k < 0.8:
                    parts.append("{\\field{\\*\\fldinst{HYPERLINK \"https://example.org/\"}}{\\fldrslt{" + " ".join(w("k", 1, 2)) + "}}}")
                elif k < 0.88:
                    parts.append(w("b", 1, 1)[0] + "\\tab " + w("b", 1, 1)[0])
                elif k < 0.94:
                    parts.append(w("b", 1, 1)[0] + "\\line " + w("b", 1, 1)[0])
                else:
                    parts.append(w("b", 1, 1)[0] + " {\\*\\annotation " + exp.out(tk.new("m")) + "} " + w("b", 1, 1)[0])
            if fn_rng.random() < 0.08:
                # half of a surrogate pair on its own (a cut-off emoji): whatever it becomes, the text must stay well-formed Unicode
                parts.append(w("b", 1, 1)[0] + " " + fn_rng.choice(["\\u-8704?", "\\u-10179?", "\\u-8704?\\u-10179?", "\\u56832?"]) + " " + w("b", 1, 1)[0])
            if esc_rng.random() < 0.2:
                # a word of non-ASCII letters the way Word writes them: \'hh for code-page characters, \uN with a "?" or a \'hh fallback
                # for anything else - in any mixture and directly adjacent
                word = "".join(esc_rng.choice("\u00e9\u00fc\u00df\u00e4\u00f1\u20ac\u2013\u2026\u03b1\u03b2\u0416\u6f22") for _ in range(esc_rng.randint(2, 5)))
                enc = []
                for ch in word:
                    try:
                        hx = "\\'%02x" % ch.encode("cp1252")[0]
                    except UnicodeEncodeError:
                        hx = None
                    n16 = ord(ch) if ord(ch) < 32768 else ord(ch) - 65536
                    enc.append(esc_rng.choice(([hx, hx] if hx else []) + ["\\u%d?" % n16, "\\u%d%s" % (n16, hx or "\\'3f")]))
                a, b2 = w("b", 1, 1)[0], w("b", 1, 1)[0]
                parts.append(a + " " + "".join(enc) + " " + b2)
                exp.between.append((a, b2, word))
                exp.literals.append(word)
            if fn_rng.random() < 0.1:
                # an embedded object whose data is given as raw bytes (\binN + N bytes) inside a skipped destination
                raw = "OBJDATA" * fn_rng.randint(1, 4)
                parts.append("{\\object\\objemb\\objw100\\objh100{\\*\\objclass Package}{\\*\\objdata\\bin%d %s}}" % (len(raw), raw))
            if fn_rng.random() < 0.12:
                # a footnote: flat, or holding a hyperlink field / a bookmark (groups nested two and three levels deep); whether
                # footnote text belongs to the full text is not claimed
                note = [exp.ignore(tk.new("n")) + " some words of a footnote, long enough to matter"]
                kind = fn_rng.choice(["flat", "field", "bookmark", "field"])
                if kind == "field":
                    note.append('{\\field{\\*\\fldinst{HYPERLINK "https://example.org/n"}}{\\fldrslt{' + exp.ignore(tk.new("n")) + "}}}")
                elif kind == "bookmark":
                    note.append("{\\*\\bkmkstart fn}{\\b{\\i " + exp.ignore(tk.new("n")) + "}}{\\*\\bkmkend fn}")
                parts.append("{\\super 1}{\\footnote \\pard\\plain {\\super 1} " + " ".join(note) + "}")
            return "\\pard " + " ".join(parts) + "\\par\n"

        def table(rows, cols, one_line=False):
            grid, xml = [], []
            for i in range(rows):
                cellx = "".join(f"\\cellx{(j + 1) * 1500}" for j in range(cols))
                cells, grow = [], []
                for j in range(cols):
                    if rng.random() < 0.1 and (i or j):
                        cells.append("\\cell")
                        grow.append({"empty": True})
                    else:
                        t = w("c", 1, 2)
                        cells.append(" ".join(t) + "\\cell")
                        grow.append({"toks": t})
                sep = " " if one_line else "\n"
                # what stands between \row and the next \trowd is the writer's choice: a line end, a blank, nothing at all
                row_end = "\n" if i == rows - 1 else tbl_rng.choice(["\n", "\n", " ", "", "\r\n"])
                xml.append("\\trowd" + cellx + "\\pard\\intbl " + sep.join(cells) + sep + "\\row" + row_end)
                grid.append(grow)
            return "".join(xml), grid

        def picture(wrapped=None):
            """wrapped: True = 64 digits per line, False = one line, None = any legal layout (even / odd line width, LF / CRLF, upper case)."""
            nonlocal n_img
            n_img += 1
            codec = rng.choice(["png", "jpeg"])
            wpx, hpx = rng.randint(2, 40), rng.randint(2, 40)
            data = IMG.make(codec, wpx, hpx, rng.randrange(1 << 16))
            hexs = data.hex()
            if wrapped is None:
                width, eol, upper = rng.choice([(0, "", False), (64, "\n", False), (63, "\n", False), (127, "\r\n", False), (128, "\r\n", True), (78, "\n", True)])
                if upper:
                    hexs = hexs.upper()
                if width:
                    hexs = eol.join(hexs[i:i + width] for i in range(0, len(hexs), width))
            elif wrapped:
                hexs = "\n".join(hexs[i:i + 64] for i in range(0, len(hexs), 64))
            exp.images.append({"sha": sha1(data), "ctype": "image/png" if codec == "png" else "image/jpeg", "w": None, "h": None, "unit": pos + 1})   # \\picw units differ between writers: size unclaimed
            return "{\\pict\\%sblip\\picw%d\\pich%d\\picwgoal%d\\pichgoal%d %s}\n" % (codec, wpx, hpx, wpx * 15, hpx * 15, hexs)

        if feature == "image-only-page" and p == fpage:
            if twin or brk_rng.random() < 0.5:
                out.append("\\pard " + picture() + "\\par\n")
            else:
                out.append(picture().rstrip("\n"))       # the picture group right between two breaks, no paragraph around it
            if twin:
                out.append(para())
        else:
            out.append(para())   # every clean page carries text (image-only / blank pages are risky features)
        for b in range(0 if (feature == "image-only-page" and p == fpage) else rng.randint(0, 4)):
            k = rng.random()
            if k < 0.6:
                out.append(para())
            elif k < 0.8:
                out.append(para(long=True))
                xml, grid = table(rng.randint(1, 3), rng.randint(1, 3))
                out.append(xml)
                exp.tables.append({"grid": grid, "unit": pos + 1})
                out.append(para(long=True))
            elif k < 0.9 and feature != "pict-hex-wrapped":
                out.append("\\pard " + picture() + "\\par\n")
            else:
                out.append("\\pard {\\i " + " ".join(w("b", 1, 2)) + "}\\par\n")
        if feature and p == fpage:
            if feature == "cells-on-one-source-line":
                out.append(para(long=True))
                xml, grid = table(2, 2, one_line=not twin)
                out.append(xml)
                exp.tables.append({"grid": grid, "unit": pos + 1})
                out.append(para(long=True))
            elif feature == "adjacent-tables":
                out.append(para(long=True))
                x1, g1 = table(2, 2)
                out.append(x1)
                mid = para(long=True) if twin else "\\pard " + w("b", 1, 1)[0] + "\\par\n"
                out.append(mid)
                x2, g2 = table(2, 2)
                out.append(x2)
                exp.tables += [{"grid": g1, "unit": pos + 1}, {"grid": g2, "unit": pos + 1}]
                out.append(para(long=True))
            elif feature == "hex-cp1252-range":
                a, b2 = w("b", 1, 1)[0], w("b", 1, 1)[0]
                out.append("\\pard " + a + (" \\'e9 " if twin else " \\'80 ") + b2 + "\\par\n")
                exp.between.append((a, b2, "é" if twin else "€"))
            elif feature == "surrogate-pair":
                a, b2 = w("b", 1, 1)[0], w("b", 1, 1)[0]
                out.append("\\pard " + a + (" \\u8364? " if twin else " \\u-10179?\\u-8704? ") + b2 + "\\par\n")
                exp.between.append((a, b2, "€" if twin else "\U0001F600"))
            elif feature == "unicode-with-hex-fallback":
                a, b2 = w("b", 1, 1)[0], w("b", 1, 1)[0]
                out.append("\\pard " + a + (" \\u8364? " if twin else " \\u8364\\'80 ") + b2 + "\\par\n")
                exp.between.append((a, b2, "€"))
            elif feature == "u-control-words":
                t = [w("b", 1, 1)[0] for _ in range(6)]
                if twin:
                    out.append("\\pard\\b0 %s {\\i %s}\\i0  %s {\\dn6 %s} {\\strike %s}\\strike0  %s\\par\n" % tuple(t))
                else:
                    out.append("\\pard\\uc1 %s {\\ul %s}\\ulnone  %s {\\up6 %s} {\\uldb %s}\\ul0  %s\\par\n" % tuple(t))
            elif feature == "lone-surrogate-escape":
                # half of a surrogate pair on its own, in body text and in a table cell (twin: the complete pair)
                a, b2 = w("b", 1, 1)[0], w("b", 1, 1)[0]
                esc = "\\u-10179?\\u-8704?" if twin else "\\u-8704?"
                out.append("\\pard " + a + " " + esc + " " + b2 + "\\par\n")
            elif feature == "pict-hex-wrapped":
                out.append("\\pard " + picture(wrapped=not twin) + "\\par\n")
        if p != n_pages - 1:
            if feature is None and lit_rng.random() < 0.25:
                # the page's last words are a Windows path ending in a backslash (escaped: \\), and the break follows at once
                out.append("\\pard " + w("b", 1, 1)[0] + " C:\\\\temp\\\\")
                out.append("\\page")
                pos += 1
                continue
            # a page break followed by a line end, a delimiter blank, or directly by the next control word
            brk = brk_rng.choice(["\\page\n", "\\page\n", "\\page ", "\\page"])
            out.append(brk)
            pos += 1
            if risky == "blank-page" and p == max(0, fpage - 1):
                # an empty page: two breaks with nothing, a blank, a line end or an empty paragraph between them
                out[-1] = brk_rng.choice(["\\page", "\\page ", "\\page\n", "\\page\\pard\\par\n"])
                out.append(brk)
                pos += 1
    out.append("}")
    exp.n_units = pos + 1
    text = "".join(out)
    if feature is None and random.Random(f"rtf-eol:{seed}").random() < 0.35:
        text = text.replace("\r\n", "\n").replace("\n", "\r\n")     # Word writes CRLF source lines (line ends carry no meaning in RTF)
    return text.encode("ascii"), exp


BUILDERS = {"rtf": (build_rtf, RTF_FEATURES, "rtf", ".rtf")}
