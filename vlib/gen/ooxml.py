"""Hand-written OOXML writers (docx, pptx, xlsx) with recorded ground truth.

Never uses openpyxl / python-docx: the reader must not grade its own writer.
``build_docx/pptx/xlsx(seed, feature, twin)`` -> (bytes, Expect).  ``feature`` is None (clean) or
the name of exactly one risky feature; ``twin=True`` renders the same document with that
feature in its benign form.
"""
from __future__ import annotations

import io
import random
import zipfile
from xml.sax.saxutils import escape

from . import images as IMG
from .expect import Expect
from .tokens import Tokens
from ..obs import sha1

W = "http://schemas.openxmlformats.org/wordprocessingml/2006/main"
R_NS = "http://schemas.openxmlformats.org/officeDocument/2006/relationships"
PKG_REL = "http://schemas.openxmlformats.org/package/2006/relationships"
A = "http://schemas.openxmlformats.org/drawingml/2006/main"
P = "http://schemas.openxmlformats.org/presentationml/2006/main"
WP = "http://schemas.openxmlformats.org/drawingml/2006/wordprocessingDrawing"
PIC = "http://schemas.openxmlformats.org/drawingml/2006/picture"
MC = "http://schemas.openxmlformats.org/markup-compatibility/2006"
WPS = "http://schemas.microsoft.com/office/word/2010/wordprocessingShape"
V = "urn:schemas-microsoft-com:vml"
XDR = "http://schemas.openxmlformats.org/drawingml/2006/spreadsheetDrawing"
S = "http://schemas.openxmlformats.org/spreadsheetml/2006/main"
REL_T = "http://schemas.openxmlformats.org/officeDocument/2006/relationships/"

DOCX_FEATURES = {
    "run-tab": "w:tab between two w:t of one run (twin: a space)",
    "run-br": "w:br between two w:t of one run (twin: a space)",
    "block-sdt": "body-level w:sdt content control holding a paragraph (twin: the bare paragraph)",
    "nested-table": "a table inside a table cell (twin: the inner table placed after the outer one)",
    "textbox-nonempty-anchor": "text box anchored in a paragraph that also has text (twin: anchor paragraph empty)",
    "image-target-parent": "image relationship target ../word/media/x.png (twin: media/x.png)",
    "image-target-absolute": "image relationship target /word/media/x.png (twin: media/x.png)",
    "image-rel-order": "image relationships listed in reverse document order (twin: document order)",
    "missing-media-part": "three pictures, the middle one's relationship points at a media part that is not in the package (twin: the last one's does)",
    "text-before-first-heading": "body paragraphs before the first heading (twin: they follow the heading)",
    "table-cell-multi-para": "table cell with two paragraphs (twin: one paragraph)",
    "empty-section": "a heading directly followed by a heading of the same level, i.e. a section without body text (twin: one paragraph between them)",
    "empty-table": "a table whose cells are all empty between two filled tables (twin: its first cell is filled)",
    "title-row-gridspan": "a table whose first row is one cell spanning (w:gridSpan) the three columns of the rows below (twin: three cells)",
    "cell-blank-paragraph": "a table cell with three paragraphs, the middle one empty (twin: two paragraphs)",
    "nested-table-in-sdt": "a table inside a table cell, wrapped in a block-level content control (w:tc/w:sdt/w:sdtContent/w:tbl), followed by another table (twin: the inner table directly in the cell)",
    "nested-sdt": "block-level content controls nested in a group control, two and three levels deep, around paragraphs and a table (twin: the same blocks in single-level controls)",
}
PPTX_FEATURES = {
    "slide-target-absolute": "presentation rel target /ppt/slides/slideN.xml (twin: slides/slideN.xml)",
    "image-target-absolute": "slide image rel target /ppt/media/x.png (twin: ../media/x.png)",
    "group-shape": "text shape inside p:grpSp (twin: ungrouped)",
    "field-run": "a:fld run inside a paragraph (twin: a:r)",
    "multi-image-slides": "images on several slides (numbering must run 1..n) (twin: all images on one slide)",
    "line-break": "a:br between two runs (twin: separate paragraphs)",
    "empty-table": "a table whose cells are all empty between two filled tables (twin: its first cell is filled)",
    "merged-cells": "a 3x3+ slide table with a horizontal (gridSpan + hMerge) and a vertical (rowSpan + vMerge) merge: the continuation cells are grid cells (twin: the same table without merges)",
    "overlaid-shapes": "text boxes stacked on exactly the same offset, texts in reverse alphabetical order (twin: distinct offsets)",
}
XLSX_FEATURES = {
    "duration-cell": "cell with a duration number format (twin: plain number)",
    "typed-first-row": "numbers in the first row (twin: header text)",
    "single-cell-first-row": "first row with exactly one non-empty cell (twin: fully populated)",
    "no-core-props": "no docProps/core.xml (twin: present)",
    "sheet-order-vs-file": "sheet order in workbook.xml differs from sheetN.xml numbering, images on 2nd (twin: same order)",
    "leading-empty-row": "data starts at row 2 (twin: row 1)",
    "hidden-sheet": "a worksheet marked state=\"hidden\" in workbook.xml (twin: visible)",
    "empty-sheet": "a worksheet without any cell among other sheets (twin: a single cell)",
    "no-dimension": "worksheet without the optional <dimension> element and a first row narrower than the rows below (twin: <dimension> present)",
    "image-size-unknown": "picture in a format whose size cannot be sniffed (EMF) anchored with ext cx=cy=0 (twin: PNG with a real extent)",
}


def _zip(parts: dict[str, bytes], order=None) -> bytes:
    bio = io.BytesIO()
    with zipfile.ZipFile(bio, "w", zipfile.ZIP_DEFLATED) as z:
        for name in (order or parts):
            z.writestr(zipfile.ZipInfo(name, date_time=(2024, 1, 2, 3, 4, 6)), parts[name], zipfile.ZIP_DEFLATED)
    return bio.getvalue()


def _rels(items: list[tuple[str, str, str, str | None]]) -> bytes:
    body = "".join(
        f'<Relationship Id="{i}" Type="{t}" Target="{escape(tg)}"' + (f' TargetMode="{m}"' if m else "") + "/>"
        for i, t, tg, m in items)
    return f'<?xml version="1.0" encoding="UTF-8" standalone="yes"?><Relationships xmlns="{PKG_REL}">{body}</Relationships>'.encode()


def _core(meta: dict, rng=None) -> bytes:
    """core.xml; every element is optional: with rng, created / modified are each present or absent (both 70 %)."""
    ns = ('xmlns:cp="http://schemas.openxmlformats.org/package/2006/metadata/core-properties" '
          'xmlns:dc="http://purl.org/dc/elements/1.1/" xmlns:dcterms="http://purl.org/dc/terms/" '
          'xmlns:xsi="http://www.w3.org/2001/XMLSchema-instance"')
    f = []
    for tag, key in (("dc:title", "title"), ("dc:creator", "author"), ("dc:subject", "subject"),
                     ("cp:keywords", "keywords"), ("dc:description", "description")):
        if key in meta:
            f.append(f"<{tag}>{escape(meta[key])}</{tag}>")
    dates = "both" if rng is None else rng.choice(["both"] * 7 + ["created", "modified", "none"])
    if dates in ("both", "created"):
        f.append('<dcterms:created xsi:type="dcterms:W3CDTF">2024-01-02T03:04:05Z</dcterms:created>')
    if dates in ("both", "modified"):
        f.append('<dcterms:modified xsi:type="dcterms:W3CDTF">2024-02-03T04:05:06Z</dcterms:modified>')
    return f'<?xml version="1.0" encoding="UTF-8" standalone="yes"?><cp:coreProperties {ns}>{"".join(f)}</cp:coreProperties>'.encode()


def _meta(tk: Tokens, exp: Expect, rng, keys=("title", "author", "subject", "keywords", "description")) -> dict:
    payloads = ["", " é&<>", " 😀", " אב", " á", " „quoted“", " Generation Z", " A-Z", " v1.0", " 2024-01-02T03:04:05Z", " 100%", " (draft)", " +00:00"]
    meta = {}
    for k in keys:
        meta[k] = exp.ignore(tk.new("t")) + rng.choice(payloads)
    exp.meta = dict(meta)
    return meta


def _ct(defaults: dict[str, str], overrides: dict[str, str]) -> bytes:
    d = "".join(f'<Default Extension="{e}" ContentType="{c}"/>' for e, c in defaults.items())
    o = "".join(f'<Override PartName="{p}" ContentType="{c}"/>' for p, c in overrides.items())
    return f'<?xml version="1.0" encoding="UTF-8" standalone="yes"?><Types xmlns="http://schemas.openxmlformats.org/package/2006/content-types">{d}{o}</Types>'.encode()


IMG_DEFAULTS = {"png": "image/png", "jpg": "image/jpeg", "gif": "image/gif", "bmp": "image/bmp",
                "rels": "application/vnd.openxmlformats-package.relationships+xml", "xml": "application/xml"}


def _rand_image(rng, idx: int):
    codec = rng.choice(["png", "jpeg", "gif", "bmp"])
    w, h = rng.randint(1, 48), rng.randint(1, 48)
    data = IMG.make(codec, w, h, rng.randrange(1 << 16) + idx)
    _, ctype, ext = IMG.CODECS[codec]
    return {"data": data, "ctype": ctype, "ext": ext, "w": w, "h": h, "sha": sha1(data)}


# =========================================================================================== DOCX

def _wt(text: str) -> str:
    return f'<w:t xml:space="preserve">{escape(text)}</w:t>'


def _wr(text: str) -> str:
    return f"<w:r>{_wt(text)}</w:r>"


def build_docx(seed: int, feature: str | None = None, twin: bool = False):
    rng = random.Random(f"docx:{seed}")
    tk = Tokens()
    exp = Expect("docx")
    exp.literals = []   # every non-token visible string this writer emits: the rest of the output must hold no letter or digit (C02 'no text that is not in the source')
    exp.unit_mode = "one-or-sections"
    exp.tables_claimed = True
    exp.images_claimed = True
    if feature:
        exp.features.add(feature if not twin else feature + "#twin")
    risky = feature if not twin else None
    meta = _meta(tk, exp, rng)
    body: list[str] = []
    rels = [("rIdStyles", REL_T + "styles", "styles.xml", None)]
    parts: dict[str, bytes] = {}
    images: list[dict] = []
    use_headings = rng.random() < 0.6 or feature in ("text-before-first-heading", "empty-section")
    n_blocks = rng.randint(3, 12)
    comments: list[tuple[int, str]] = []
    footnotes: list[tuple[int, str]] = []
    link_n = 0
    unit = 0
    started = False

    def words(cls, lo=1, hi=3, heading=False):
        return [exp.text(tk.new(cls), unit, heading) for _ in range(rng.randint(lo, hi))]

    def para_runs(cls="b"):
        """Inline content of a body paragraph (clean constructs only)."""
        out = []
        for _ in range(rng.randint(1, 3)):
            kind = rng.random()
            if kind < 0.55:
                out.append(_wr(" ".join(words(cls)) + " "))
            elif kind < 0.65:
                nonlocal link_n
                link_n += 1
                rid = f"rIdLink{link_n}"
                rels.append((rid, REL_T + "hyperlink", f"https://example.org/{link_n}", "External"))
                out.append(f'<w:hyperlink r:id="{rid}">{_wr(" ".join(words("k", 1, 2)) + " ")}</w:hyperlink>')
            elif kind < 0.73:
                out.append(f'<w:ins w:id="{rng.randint(1, 999)}" w:author="a" w:date="2024-01-01T00:00:00Z">{_wr(" ".join(words("i", 1, 2)) + " ")}</w:ins>')
            elif kind < 0.81:
                d = exp.out(tk.new("d"))
                out.append(f'<w:del w:id="{rng.randint(1, 999)}" w:author="a" w:date="2024-01-01T00:00:00Z"><w:r><w:delText xml:space="preserve">{d} </w:delText></w:r></w:del>')
            elif kind < 0.87:
                cid = len(comments)
                comments.append((cid, exp.out(tk.new("m"))))
                out.append(f'<w:commentRangeStart w:id="{cid}"/>{_wr(" ".join(words(cls, 1, 1)) + " ")}<w:commentRangeEnd w:id="{cid}"/><w:r><w:commentReference w:id="{cid}"/></w:r>')
            elif kind < 0.92:
                fid = len(footnotes) + 2
                footnotes.append((fid, exp.ignore(tk.new("n"))))
                out.append(_wr(" ".join(words(cls, 1, 1)) + " ") + f'<w:r><w:footnoteReference w:id="{fid}"/></w:r>')
            else:
                out.append(f'<w:sdt><w:sdtPr><w:alias w:val="cc"/></w:sdtPr><w:sdtContent>{_wr(" ".join(words("e", 1, 2)) + " ")}</w:sdtContent></w:sdt>')
            if rng.random() < 0.12:
                # a complex field: the instruction is not text, the field result is
                code = exp.out(tk.new("r"))
                out.append(f'<w:r><w:fldChar w:fldCharType="begin"/></w:r><w:r><w:instrText xml:space="preserve"> DOCPROPERTY {code} \\* MERGEFORMAT </w:instrText></w:r>'
                           f'<w:r><w:fldChar w:fldCharType="separate"/></w:r>{_wr(" ".join(words(cls, 1, 1)) + " ")}<w:r><w:fldChar w:fldCharType="end"/></w:r>')
        return "".join(out)

    def para(cls="b", style=None, numbered=False):
        ppr = ""
        if style:
            ppr = f'<w:pPr><w:pStyle w:val="{style}"/></w:pPr>'
        elif numbered:
            ppr = f'<w:pPr><w:numPr><w:ilvl w:val="{rng.randint(0, 2)}"/><w:numId w:val="1"/></w:numPr></w:pPr>'
        return f"<w:p>{ppr}{para_runs(cls)}</w:p>"

    def table(rows, cols, multi_para=False, nested=None, blank=None):
        """blank: None = random empty cells; "all" = every cell empty; "all-but-first" = its control twin."""
        grid = []
        xml = ['<w:tbl><w:tblPr><w:tblW w:w="0" w:type="auto"/></w:tblPr><w:tblGrid>' + "<w:gridCol/>" * cols + "</w:tblGrid>"]
        for i in range(rows):
            xml.append("<w:tr>")
            grow = []
            for j in range(cols):
                if (rng.random() < 0.12 and not (i == 0 and j == 0)) if blank is None else (blank == "all" or (i, j) != (0, 0)):
                    xml.append("<w:tc><w:p/></w:tc>")
                    grow.append({"empty": True})
                    continue
                toks = words("c", 1, 2)
                cell = f"<w:p>{_wr(' '.join(toks))}</w:p>"
                if multi_para and i == 0 and j == 0:
                    t2 = words("c", 1, 2)
                    cell += f"<w:p>{_wr(' '.join(t2))}</w:p>"
                    toks = toks + t2
                if nested is not None and i == 0 and j == 0:
                    cell += nested() + "<w:p/>"
                xml.append(f"<w:tc>{cell}</w:tc>")
                grow.append({"toks": toks})
            xml.append("</w:tr>")
            grid.append(grow)
        xml.append("</w:tbl>")
        return "".join(xml), grid

    def image_para(target_style="media", missing=False):
        idx = len(images) + 1
        im = _rand_image(rng, idx)
        im["name"] = f"image{idx}{im['ext']}"
        im["rid"] = f"rIdImg{idx}"
        im["target"] = {"media": f"media/{im['name']}", "parent": f"../word/media/{im['name']}", "absolute": f"/word/media/{im['name']}"}[target_style]
        im["missing"] = missing
        images.append(im)
        if not missing:
            parts[f"word/media/{im['name']}"] = im["data"]
        return (f'<w:p><w:r><w:drawing><wp:inline><wp:extent cx="{im["w"] * 9525}" cy="{im["h"] * 9525}"/><wp:docPr id="{idx}" name="Picture {idx}"/>'
                f'<a:graphic xmlns:a="{A}"><a:graphicData uri="{PIC}"><pic:pic xmlns:pic="{PIC}"><pic:nvPicPr><pic:cNvPr id="{idx}" name="img{idx}" descr="d{idx}"/><pic:cNvPicPr/></pic:nvPicPr>'
                f'<pic:blipFill><a:blip r:embed="{im["rid"]}"/><a:stretch><a:fillRect/></a:stretch></pic:blipFill><pic:spPr/></pic:pic></a:graphicData></a:graphic></wp:inline></w:drawing></w:r></w:p>')

    def textbox(anchor_text: str):
        toks = words("x", 1, 2)
        inner = f"<w:p>{_wr(' '.join(toks))}</w:p>"
        return (f'<w:p>{anchor_text}<w:r><mc:AlternateContent><mc:Choice Requires="wps"><w:drawing><wp:anchor><wp:extent cx="100" cy="100"/><wp:docPr id="77" name="tb"/>'
                f'<a:graphic xmlns:a="{A}"><a:graphicData uri="{WPS}"><wps:wsp><wps:txbx><w:txbxContent>{inner}</w:txbxContent></wps:txbx><wps:bodyPr/></wps:wsp></a:graphicData></a:graphic></wp:anchor></w:drawing></mc:Choice>'
                f'<mc:Fallback><w:pict><v:shape><v:textbox><w:txbxContent>{inner}</w:txbxContent></v:textbox></v:shape></w:pict></mc:Fallback></mc:AlternateContent></w:r></w:p>')

    # ---- body
    if use_headings and feature == "text-before-first-heading" and not twin:
        body.append(para())
        body.append(para())
    feature_done = feature is None
    deferred = []
    for b in range(n_blocks):
        if use_headings and (not started or rng.random() < 0.25):
            started = True
            lvl = rng.randint(1, 3) if b else 1
            toks = [exp.text(tk.new("h"), unit, True) for _ in range(rng.randint(1, 2))]
            body.append(f'<w:p><w:pPr><w:pStyle w:val="Heading{lvl}"/></w:pPr>{_wr(" ".join(toks))}</w:p>')
            body.append(para())
            if feature == "text-before-first-heading" and twin and b == 0:
                body.append(para())
                body.append(para())
            continue
        kind = rng.random()
        if kind < 0.45:
            body.append(para())
        elif kind < 0.6:
            for _ in range(rng.randint(1, 3)):
                body.append(para("l", numbered=True))
        elif kind < 0.78:
            xml, grid = table(rng.randint(1, 4), rng.randint(1, 4))
            body.append(xml)
            exp.tables.append({"grid": grid})
            body.append(para())
        elif kind < 0.88 and feature not in ("image-target-parent", "image-target-absolute", "image-rel-order", "missing-media-part"):
            body.append(image_para())
        else:
            body.append(textbox(""))
        # place the feature once, in the middle of the document
        if not feature_done and b >= n_blocks // 2:
            feature_done = True
            body.append(_docx_feature(feature, twin, rng, tk, exp, unit, words, para, table, image_para, textbox, deferred))
    if not feature_done:
        body.append(_docx_feature(feature, twin, rng, tk, exp, unit, words, para, table, image_para, textbox, deferred))
    body.append(para())
    hdr_tok, ftr_tok = exp.out(tk.new("f")), exp.out(tk.new("f"))
    rels.append(("rIdHdr", REL_T + "header", "header1.xml", None))
    rels.append(("rIdFtr", REL_T + "footer", "footer1.xml", None))
    img_rels = [(im["rid"], REL_T + "image", im["target"], None) for im in images]
    if risky == "image-rel-order":
        img_rels.reverse()
    rels += img_rels
    if comments:
        rels.append(("rIdComments", REL_T + "comments", "comments.xml", None))
    if footnotes:
        rels.append(("rIdFoot", REL_T + "footnotes", "footnotes.xml", None))
    nsdecl = (f'xmlns:w="{W}" xmlns:r="{R_NS}" xmlns:wp="{WP}" xmlns:mc="{MC}" xmlns:wps="{WPS}" xmlns:v="{V}" xmlns:a="{A}" mc:Ignorable="wps"')
    sect = '<w:sectPr><w:headerReference w:type="default" r:id="rIdHdr"/><w:footerReference w:type="default" r:id="rIdFtr"/><w:pgSz w:w="11906" w:h="16838"/></w:sectPr>'
    parts["word/document.xml"] = f'<?xml version="1.0" encoding="UTF-8" standalone="yes"?><w:document {nsdecl}><w:body>{"".join(body)}{sect}</w:body></w:document>'.encode()
    styles = "".join(f'<w:style w:type="paragraph" w:styleId="Heading{i}"><w:name w:val="heading {i}"/></w:style>' for i in (1, 2, 3))
    parts["word/styles.xml"] = f'<?xml version="1.0" encoding="UTF-8"?><w:styles xmlns:w="{W}"><w:style w:type="paragraph" w:default="1" w:styleId="Normal"><w:name w:val="Normal"/></w:style>{styles}</w:styles>'.encode()
    parts["word/header1.xml"] = f'<?xml version="1.0" encoding="UTF-8"?><w:hdr xmlns:w="{W}"><w:p>{_wr(hdr_tok)}</w:p></w:hdr>'.encode()
    parts["word/footer1.xml"] = f'<?xml version="1.0" encoding="UTF-8"?><w:ftr xmlns:w="{W}"><w:p>{_wr(ftr_tok)}</w:p></w:ftr>'.encode()
    if comments:
        cs = "".join(f'<w:comment w:id="{cid}" w:author="rev" w:date="2024-01-01T00:00:00Z"><w:p>{_wr(t)}</w:p></w:comment>' for cid, t in comments)
        parts["word/comments.xml"] = f'<?xml version="1.0" encoding="UTF-8"?><w:comments xmlns:w="{W}">{cs}</w:comments>'.encode()
    if footnotes:
        fs = "".join(f'<w:footnote w:id="{fid}"><w:p>{_wr(t)}</w:p></w:footnote>' for fid, t in footnotes)
        parts["word/footnotes.xml"] = f'<?xml version="1.0" encoding="UTF-8"?><w:footnotes xmlns:w="{W}">{fs}</w:footnotes>'.encode()
    parts["word/_rels/document.xml.rels"] = _rels(rels)
    parts["_rels/.rels"] = _rels([("rId1", REL_T + "officeDocument", "word/document.xml", None),
                                  ("rId2", "http://schemas.openxmlformats.org/package/2006/relationships/metadata/core-properties", "docProps/core.xml", None)])
    parts["docProps/core.xml"] = _core(meta, random.Random(f"core:{seed}"))
    parts["[Content_Types].xml"] = _ct(IMG_DEFAULTS, {"/word/document.xml": "application/vnd.openxmlformats-officedocument.wordprocessingml.document.main+xml"})
    for im in images:
        if not im.get("missing"):     # a picture whose part is not in the package cannot be returned; the others are numbered 1..n
            exp.images.append({"sha": im["sha"], "ctype": im["ctype"], "w": im["w"], "h": im["h"], "unit": None})
    order = ["[Content_Types].xml", "_rels/.rels"] + [k for k in parts if k not in ("[Content_Types].xml", "_rels/.rels")]
    return _zip(parts, order), exp


def _docx_feature(feature, twin, rng, tk, exp, unit, words, para, table, image_para, textbox, deferred) -> str:
    if feature in ("run-tab", "run-br"):
        a, b = words("b", 1, 1)[0], words("b", 1, 1)[0]
        sep = " " if twin else ("<w:tab/>" if feature == "run-tab" else "<w:br/>")
        if twin:
            return f"<w:p><w:r>{_wt(a + ' ' + b)}</w:r></w:p>"
        return f"<w:p><w:r>{_wt(a)}{sep}{_wt(b)}</w:r></w:p>"
    if feature == "block-sdt":
        p = para()
        return p if twin else f'<w:sdt><w:sdtPr><w:alias w:val="blockcc"/></w:sdtPr><w:sdtContent>{p}</w:sdtContent></w:sdt>'
    if feature == "nested-table":
        if twin:
            outer, ogrid = table(2, 2)
            mid = para()
            inner, igrid = table(2, 2)
            exp.tables.append({"grid": ogrid})
            exp.tables.append({"grid": igrid})
            return outer + mid + inner
        # expectation for the nested form: the outer cell (0,0) holds its own tokens followed by the inner table's tokens
        # (no claim is made on how a nested table is flattened into the cell; only text fidelity (C02) is judged through this feature)
        outer, ogrid = table(2, 2, nested=lambda: table(2, 2)[0])
        exp.nested_tables = 2
        exp.tables_claimed = False
        return outer
    if feature == "nested-table-in-sdt":
        def inner():
            t = table(2, 3)[0]
            return t if twin else f'<w:sdt><w:sdtPr><w:alias w:val="tblcc"/></w:sdtPr><w:sdtContent>{t}</w:sdtContent></w:sdt>'
        outer, ogrid = table(2, 2, nested=inner)
        mid = para()
        after, agrid = table(1, 2)
        exp.nested_tables = 3          # outer, inner, and the table that follows: their number (and so their presence) is claimed
        exp.tables_claimed = False
        return outer + mid + after
    if feature == "textbox-nonempty-anchor":
        anchor = "" if twin else f"<w:r>{_wt(' '.join(words('b', 1, 1)))}</w:r>"
        pre = para() if twin else ""
        return pre + textbox(anchor)
    if feature == "image-target-parent":
        return image_para("media" if twin else "parent")
    if feature == "image-target-absolute":
        return image_para("media" if twin else "absolute")
    if feature == "image-rel-order":
        return image_para() + para() + image_para() + para() + image_para()
    if feature == "missing-media-part":
        return image_para() + para() + image_para(missing=not twin) + para() + image_para(missing=twin)
    if feature == "table-cell-multi-para":
        xml, grid = table(2, 2, multi_para=not twin)
        exp.tables.append({"grid": grid})
        return xml
    if feature == "text-before-first-heading":
        return ""
    if feature == "title-row-gridspan":
        # a ragged table: one title cell spanning the three columns of the body rows (twin: three cells in the title row)
        title = words("c", 1, 2)
        rows_xml = [f'<w:tr><w:tc><w:tcPr><w:gridSpan w:val="3"/></w:tcPr><w:p>{_wr(" ".join(title))}</w:p></w:tc></w:tr>' if not twin
                    else f'<w:tr><w:tc><w:p>{_wr(" ".join(title))}</w:p></w:tc><w:tc><w:p/></w:tc><w:tc><w:p/></w:tc></w:tr>']
        grid = [[{"toks": title}] if not twin else [{"toks": title}, {"empty": True}, {"empty": True}]]
        for _ in range(3):
            row = [words("c", 1, 1) for _ in range(3)]
            grid.append([{"toks": t} for t in row])
            rows_xml.append("<w:tr>" + "".join(f"<w:tc><w:p>{_wr(' '.join(t))}</w:p></w:tc>" for t in row) + "</w:tr>")
        exp.tables.append({"grid": grid})
        return '<w:tbl><w:tblPr><w:tblW w:w="0" w:type="auto"/></w:tblPr><w:tblGrid><w:gridCol/><w:gridCol/><w:gridCol/></w:tblGrid>' + "".join(rows_xml) + "</w:tbl>"
    if feature == "cell-blank-paragraph":
        # a cell with three paragraphs of which the middle one is empty (twin: no empty paragraph)
        t = [words("c", 1, 1)[0] for _ in range(4)]
        mid = "" if twin else "<w:p/>"
        xml = (f'<w:tbl><w:tblPr><w:tblW w:w="0" w:type="auto"/></w:tblPr><w:tblGrid><w:gridCol/><w:gridCol/></w:tblGrid><w:tr><w:tc><w:p>{_wr(t[0])}</w:p>{mid}<w:p>{_wr(t[1])}</w:p></w:tc>'
               f'<w:tc><w:p>{_wr(t[2])}</w:p></w:tc></w:tr><w:tr><w:tc><w:p>{_wr(t[3])}</w:p></w:tc><w:tc><w:p/></w:tc></w:tr></w:tbl>')
        exp.tables.append({"grid": [[{"lines": [t[0], t[1]] if twin else [t[0], "", t[1]]}, {"toks": [t[2]]}], [{"toks": [t[3]]}, {"empty": True}]]})
        return xml
    if feature == "empty-table":
        out = []        # (built strictly in document order: tokens are recorded as they are drawn)
        for k, blank in enumerate((None, "all-but-first" if twin else "all", None)):
            xml, g = table(2, 2 + (k == 1), blank=blank)
            exp.tables.append({"grid": g})
            out.append(xml)
            out.append(para())
        return "".join(out)
    if feature == "nested-sdt":
        # a group content control holding a text control, a table control and (in a table cell) a doubly nested control
        def sdt(inner, alias):
            return f'<w:sdt><w:sdtPr><w:alias w:val="{alias}"/></w:sdtPr><w:sdtContent>{inner}</w:sdtContent></w:sdt>'
        p1, p2 = para(), para()      # (document order: p1, p2, table, p3)
        t, tg = table(2, 2)
        exp.tables.append({"grid": tg})
        p3 = para()
        if twin:
            return sdt(p1, "one") + sdt(p2, "two") + sdt(t, "three") + p3
        return sdt(p1 + sdt(p2, "inner-text") + sdt(sdt(t, "inner-table"), "middle") + p3, "group")
    if feature == "empty-section":
        def h():
            return f'<w:p><w:pPr><w:pStyle w:val="Heading1"/></w:pPr>{_wr(" ".join(exp.text(tk.new("h"), unit, True) for _ in range(rng.randint(1, 2))))}</w:p>'
        return h() + (para() if twin else "") + h() + para()
    raise ValueError(feature)


# =========================================================================================== PPTX

def _ap(runs_xml: str) -> str:
    return f"<a:p>{runs_xml}</a:p>"


def _ar(text: str) -> str:
    return f'<a:r><a:rPr lang="en-US"/><a:t>{escape(text)}</a:t></a:r>'


def build_pptx(seed: int, feature: str | None = None, twin: bool = False):
    rng = random.Random(f"pptx:{seed}")
    tk = Tokens()
    exp = Expect("pptx")
    exp.literals = ["zulu", "mike", "alfa"]   # every non-token visible string this writer emits: the rest of the output must hold no letter or digit (C02 'no text that is not in the source')
    exp.unit_mode = "exact"
    exp.join_equality = True
    exp.tables_claimed = True
    exp.images_claimed = True
    if feature:
        exp.features.add(feature if not twin else feature + "#twin")
    risky = feature if not twin else None
    meta = _meta(tk, exp, rng)
    n_slides = rng.randint(1, 6)
    if feature == "multi-image-slides":
        n_slides = max(n_slides, 3)
    parts: dict[str, bytes] = {}
    pres_rels = []
    sld_ids = []
    img_no = 0
    feature_slide = rng.randrange(n_slides)
    # OPC part names are arbitrary: half of the decks number their slide parts out of presentation order
    part_no = list(range(1, n_slides + 1))
    if rng.random() < 0.5:
        part_no = rng.sample(range(1, n_slides + 4), n_slides)
    for s in range(n_slides):
        pn = part_no[s]
        shapes = []
        rels = []
        y = 100000
        sid = 2
        empty = rng.random() < 0.12 and s != feature_slide and n_slides > 1

        def add_table(all_empty=False, first_filled_only=False, merged=None):
            """A table graphic frame on the current slide; all_empty: every cell empty; first_filled_only: its control twin;
            merged: True = (0,0) spans two columns and (1,cols-1) two rows, False = the same cells without merge attributes."""
            nonlocal sid, y
            rows, cols = rng.randint(1, 3), rng.randint(1, 3)
            if all_empty or first_filled_only:
                rows, cols = max(rows, 2), max(cols, 2)
            if merged is not None:
                rows, cols = rng.randint(3, 4), rng.randint(3, 4)
            grid, trs = [], []
            for i in range(rows):
                grow, tcs = [], []
                for j in range(cols):
                    blank = (rng.random() < 0.12 and (i or j)) if not (all_empty or first_filled_only) else not (first_filled_only and i == 0 and j == 0)
                    if merged is not None:
                        anchor = {(0, 0): ' gridSpan="2"', (1, cols - 1): ' rowSpan="2"'}.get((i, j))
                        cont = {(0, 1): ' hMerge="1"', (2, cols - 1): ' vMerge="1"'}.get((i, j))
                        if cont:
                            tcs.append(f"<a:tc{cont if merged else ''}><a:txBody><a:bodyPr/><a:p/></a:txBody><a:tcPr/></a:tc>")
                            grow.append({"empty": True})
                            continue
                        if anchor:
                            t = toks("c", 1, 2)
                            tcs.append(f"<a:tc{anchor if merged else ''}><a:txBody><a:bodyPr/>{_ap(_ar(' '.join(t)))}</a:txBody><a:tcPr/></a:tc>")
                            grow.append({"toks": t})
                            continue
                        blank = False
                    if blank:
                        tcs.append("<a:tc><a:txBody><a:bodyPr/><a:p/></a:txBody><a:tcPr/></a:tc>")
                        grow.append({"empty": True})
                    else:
                        t = toks("c", 1, 2)
                        tcs.append(f"<a:tc><a:txBody><a:bodyPr/>{_ap(_ar(' '.join(t)))}</a:txBody><a:tcPr/></a:tc>")
                        grow.append({"toks": t})
                grid.append(grow)
                trs.append('<a:tr h="370840">' + "".join(tcs) + "</a:tr>")
            sid += 1
            shapes.append(f'<p:graphicFrame><p:nvGraphicFramePr><p:cNvPr id="{sid}" name="Table {sid}"/><p:cNvGraphicFramePr/><p:nvPr/></p:nvGraphicFramePr>'
                          f'<p:xfrm><a:off x="100000" y="{y}"/><a:ext cx="5000000" cy="400000"/></p:xfrm><a:graphic><a:graphicData uri="http://schemas.openxmlformats.org/drawingml/2006/table">'
                          f'<a:tbl><a:tblPr/><a:tblGrid>{"<a:gridCol w=\"100\"/>" * cols}</a:tblGrid>{"".join(trs)}</a:tbl></a:graphicData></a:graphic></p:graphicFrame>')
            y += 500000
            exp.tables.append({"grid": grid, "unit": s + 1})

        def sp(text_xml, ph=None, pos=True, name="s"):
            nonlocal y, sid
            sid += 1
            phx = f'<p:ph type="{ph}"/>' if ph in ("title", "body", "ftr") else ('<p:ph idx="1"/>' if ph == "idx" else "")
            xfrm = f'<a:xfrm><a:off x="100000" y="{y}"/><a:ext cx="5000000" cy="400000"/></a:xfrm>' if pos else ""
            y += 500000
            return (f'<p:sp><p:nvSpPr><p:cNvPr id="{sid}" name="{name}{sid}"/><p:cNvSpPr/><p:nvPr>{phx}</p:nvPr></p:nvSpPr><p:spPr>{xfrm}</p:spPr>'
                    f'<p:txBody><a:bodyPr/>{text_xml}</p:txBody></p:sp>')

        def toks(cls, lo=1, hi=3, heading=False):
            return [exp.text(tk.new(cls), s, heading) for _ in range(rng.randint(lo, hi))]

        if not empty:
            if rng.random() < 0.8:
                shapes.append(sp(_ap(_ar(" ".join(toks("h", 1, 2, True)))), ph="title"))
            for _ in range(rng.randint(0, 3)):
                k = rng.random()
                if k < 0.4:
                    paras = "".join(_ap("".join(_ar(" ".join(toks("b")) + " ") for _ in range(rng.randint(1, 2)))) for _ in range(rng.randint(1, 3)))
                    shapes.append(sp(paras, ph=rng.choice(["body", "idx"])))
                elif k < 0.6:
                    paras = "".join(_ap(f'<a:pPr lvl="{rng.randint(0, 2)}"/>' + _ar(" ".join(toks("l")))) for _ in range(rng.randint(1, 3)))
                    shapes.append(sp(paras, ph="body"))
                elif k < 0.75:
                    shapes.append(sp(_ap(_ar(" ".join(toks("x", 1, 2)))), ph=None, name="TextBox"))
                elif k < 0.9:
                    add_table()
                else:
                    pass
            # footer placeholder -> excluded
            if rng.random() < 0.3:
                shapes.append(sp(_ap(_ar(exp.out(tk.new("f")))), ph="ftr", pos=False))
        n_img = 0
        if feature == "multi-image-slides":
            if twin:
                n_img = 3 if s == 0 else 0
            else:
                n_img = 1 if s < 3 else 0
        elif feature == "image-target-absolute":
            n_img = 1 if s == feature_slide else 0
        elif feature is None and not empty and rng.random() < 0.45:
            n_img = rng.choice([1, 1, 2])   # pictures on any slides, with picture-free slides in between (numbers run through the deck)
        for _ in range(n_img):
            img_no += 1
            im = _rand_image(rng, img_no)
            name = f"image{img_no}{im['ext']}"
            parts[f"ppt/media/{name}"] = im["data"]
            rid = f"rIdImg{img_no}"
            target = f"/ppt/media/{name}" if risky == "image-target-absolute" else f"../media/{name}"
            rels.append((rid, REL_T + "image", target, None))
            sid += 1
            shapes.append(f'<p:pic><p:nvPicPr><p:cNvPr id="{sid}" name="Picture {sid}" descr="{exp.ignore(tk.new("u"))} alt text"/><p:cNvPicPr/><p:nvPr/></p:nvPicPr><p:blipFill><a:blip r:embed="{rid}"/><a:stretch><a:fillRect/></a:stretch></p:blipFill>'
                          f'<p:spPr><a:xfrm><a:off x="100000" y="{y}"/><a:ext cx="{im["w"] * 9525}" cy="{im["h"] * 9525}"/></a:xfrm></p:spPr></p:pic>')
            y += 500000
            exp.images.append({"sha": im["sha"], "ctype": im["ctype"], "w": im["w"], "h": im["h"], "unit": s + 1})
        if feature and s == feature_slide:
            if feature == "group-shape":
                inner = sp(_ap(_ar(" ".join(toks("x", 1, 2)))), ph=None, name="TextBox")
                shapes.append(inner if twin else f'<p:grpSp><p:nvGrpSpPr><p:cNvPr id="900" name="Group"/><p:cNvGrpSpPr/><p:nvPr/></p:nvGrpSpPr><p:grpSpPr/>{inner}</p:grpSp>')
            elif feature == "field-run":
                t1, t2 = toks("b", 1, 1)[0], toks("b", 1, 1)[0]
                second = _ar(t2) if twin else f'<a:fld id="{{B1}}" type="slidenum"><a:rPr lang="en-US"/><a:t>{t2}</a:t></a:fld>'
                shapes.append(sp(_ap(_ar(t1 + " ") + second), ph="body"))
            elif feature == "overlaid-shapes":
                # several text boxes on exactly the same offset: source order (z-order) decides;
                # the texts start with words whose alphabetical order is the reverse of the source order
                y0 = y
                for word in ("zulu", "mike", "alfa"):
                    if not twin:
                        y = y0
                    shapes.append(sp(_ap(_ar(word + " " + " ".join(toks("x", 1, 2)))), ph=None, name="TextBox"))
                # (shapes of different kinds on one offset are not claimed: the reader orders by position and, within a
                #  position, collects text shapes before graphic frames - a reading-order choice the property leaves open)
            elif feature == "merged-cells":
                add_table(merged=not twin)
            elif feature == "empty-table":
                add_table()
                add_table(all_empty=not twin, first_filled_only=twin)
                add_table()
            elif feature == "line-break":
                t1, t2 = toks("b", 1, 1)[0], toks("b", 1, 1)[0]
                shapes.append(sp(_ap(_ar(t1)) + _ap(_ar(t2)) if twin else _ap(_ar(t1) + "<a:br/>" + _ar(t2)), ph="body"))
        # speaker notes -> excluded
        if rng.random() < 0.4:
            ntok = exp.out(tk.new("n"))
            parts[f"ppt/notesSlides/notesSlide{pn}.xml"] = (f'<?xml version="1.0" encoding="UTF-8"?><p:notes xmlns:a="{A}" xmlns:p="{P}" xmlns:r="{R_NS}"><p:cSld><p:spTree><p:nvGrpSpPr><p:cNvPr id="1" name=""/><p:cNvGrpSpPr/><p:nvPr/></p:nvGrpSpPr><p:grpSpPr/>'
                                                                f'<p:sp><p:nvSpPr><p:cNvPr id="3" name="Notes"/><p:cNvSpPr/><p:nvPr><p:ph type="body" idx="1"/></p:nvPr></p:nvSpPr><p:spPr/><p:txBody><a:bodyPr/>{_ap(_ar(ntok))}</p:txBody></p:sp></p:spTree></p:cSld></p:notes>').encode()
            rels.append((f"rIdNotes{s + 1}", REL_T + "notesSlide", f"../notesSlides/notesSlide{pn}.xml", None))
        parts[f"ppt/slides/slide{pn}.xml"] = (f'<?xml version="1.0" encoding="UTF-8" standalone="yes"?><p:sld xmlns:a="{A}" xmlns:p="{P}" xmlns:r="{R_NS}"><p:cSld><p:spTree>'
                                                 f'<p:nvGrpSpPr><p:cNvPr id="1" name=""/><p:cNvGrpSpPr/><p:nvPr/></p:nvGrpSpPr><p:grpSpPr/>{"".join(shapes)}</p:spTree></p:cSld></p:sld>').encode()
        parts[f"ppt/slides/_rels/slide{pn}.xml.rels"] = _rels(rels)
        target = f"/ppt/slides/slide{pn}.xml" if (risky == "slide-target-absolute" and s == feature_slide) else f"slides/slide{pn}.xml"
        pres_rels.append((f"rIdS{s + 1}", REL_T + "slide", target, None))
        sld_ids.append(f'<p:sldId id="{256 + s}" r:id="rIdS{s + 1}"/>')
    exp.n_units = n_slides
    parts["ppt/presentation.xml"] = (f'<?xml version="1.0" encoding="UTF-8" standalone="yes"?><p:presentation xmlns:a="{A}" xmlns:p="{P}" xmlns:r="{R_NS}">'
                                     f'<p:sldIdLst>{"".join(sld_ids)}</p:sldIdLst><p:sldSz cx="9144000" cy="6858000"/></p:presentation>').encode()
    parts["ppt/_rels/presentation.xml.rels"] = _rels(pres_rels)
    parts["_rels/.rels"] = _rels([("rId1", REL_T + "officeDocument", "ppt/presentation.xml", None),
                                  ("rId2", "http://schemas.openxmlformats.org/package/2006/relationships/metadata/core-properties", "docProps/core.xml", None)])
    parts["docProps/core.xml"] = _core(meta, random.Random(f"core:{seed}"))
    parts["[Content_Types].xml"] = _ct(IMG_DEFAULTS, {"/ppt/presentation.xml": "application/vnd.openxmlformats-officedocument.presentationml.presentation.main+xml"})
    order = ["[Content_Types].xml", "_rels/.rels"] + [k for k in parts if k not in ("[Content_Types].xml", "_rels/.rels")]
    return _zip(parts, order), exp


# =========================================================================================== XLSX

def _col(n: int) -> str:
    s = ""
    n += 1
    while n:
        n, r = divmod(n - 1, 26)
        s = chr(65 + r) + s
    return s


def build_xlsx(seed: int, feature: str | None = None, twin: bool = False):
    rng = random.Random(f"xlsx:{seed}")
    tk = Tokens()
    exp = Expect("xlsx")
    exp.unit_mode = "exact"
    exp.join_equality = True
    exp.tables_claimed = True
    exp.images_claimed = True
    if feature:
        exp.features.add(feature if not twin else feature + "#twin")
    risky = feature if not twin else None
    meta = _meta(tk, exp, rng, keys=("title", "author", "keywords", "description"))
    n_sheets = rng.randint(1, 4)
    if feature == "sheet-order-vs-file":
        n_sheets = max(2, n_sheets)
    shared: list[str] = []
    parts: dict[str, bytes] = {}
    wb_rels = []
    sheets_xml = []
    file_no = list(range(1, n_sheets + 1))
    draw_no = list(range(1, n_sheets + 1))
    drng = random.Random(f"xlsx-drawings:{seed}")
    if drng.random() < 0.5:
        draw_no = drng.choice([draw_no[::-1], [n + 8 for n in draw_no], drng.sample(draw_no, len(draw_no))])
    if risky == "sheet-order-vs-file":
        file_no.reverse()
    feature_sheet = 1 if feature == "sheet-order-vs-file" else rng.randrange(n_sheets)
    img_no = 0
    # styles: xf 0 general, 1 date (14), 2 datetime (22), 3 duration ([h]:mm:ss custom 164), 4 time (21)
    styles = (f'<?xml version="1.0" encoding="UTF-8"?><styleSheet xmlns="{S}"><numFmts count="1"><numFmt numFmtId="164" formatCode="[h]:mm:ss"/></numFmts>'
              '<fonts count="1"><font><sz val="11"/><name val="Calibri"/></font></fonts><fills count="1"><fill><patternFill patternType="none"/></fill></fills>'
              '<borders count="1"><border/></borders><cellStyleXfs count="1"><xf numFmtId="0" fontId="0" fillId="0" borderId="0"/></cellStyleXfs>'
              '<cellXfs count="5"><xf numFmtId="0" fontId="0" fillId="0" borderId="0" xfId="0"/><xf numFmtId="14" fontId="0" fillId="0" borderId="0" xfId="0" applyNumberFormat="1"/>'
              '<xf numFmtId="22" fontId="0" fillId="0" borderId="0" xfId="0" applyNumberFormat="1"/><xf numFmtId="164" fontId="0" fillId="0" borderId="0" xfId="0" applyNumberFormat="1"/>'
              '<xf numFmtId="21" fontId="0" fillId="0" borderId="0" xfId="0" applyNumberFormat="1"/></cellXfs></styleSheet>')
    for s in range(n_sheets):
        name_tok = exp.text(tk.new("s"), s)
        rows, cols = rng.randint(1, 6), rng.randint(2, 5)
        if feature == "no-dimension" and s == feature_sheet:
            rows, cols = max(rows, 3), max(cols, 3)
        if feature == "empty-sheet" and s == feature_sheet:
            rows, cols = (1, 1) if twin else (0, 1)      # a sheet without any cell (twin: a single cell)
        grid = []
        xml_rows = []
        row_off = 1 if (risky == "leading-empty-row" and s == feature_sheet) else 0
        for i in range(rows):
            cells, grow = [], []
            # a totals row that sums to zero: the last row holds only 0 / 0.0 / FALSE
            zero_row = i == rows - 1 and rows >= 3 and not (feature and s == feature_sheet) and rng.random() < 0.2
            for j in range(cols):
                ref = f"{_col(j)}{i + 1 + row_off}"
                is_feat = feature and s == feature_sheet
                if zero_row:
                    z = rng.choice([0, 0.0, False])
                    cells.append(f'<c r="{ref}" t="b"><v>0</v></c>' if z is False else f'<c r="{ref}"><v>{z!r}</v></c>')
                    grow.append({"v": z})
                    continue
                if i == 0:
                    if is_feat and feature == "typed-first-row" and not twin:
                        v = rng.randint(1, 999)
                        cells.append(f'<c r="{ref}"><v>{v}</v></c>')
                        grow.append({"v": v})
                        continue
                    if is_feat and feature == "single-cell-first-row" and not twin and j > 0:
                        grow.append({"empty": True})
                        continue
                    if is_feat and feature == "no-dimension" and j >= 2 and j == cols - 1:
                        grow.append({"empty": True})     # ragged: the first row is narrower than the rows below (both forms)
                        continue
                    t = exp.text(tk.new("c"), s)
                    shared.append(t)
                    cells.append(f'<c r="{ref}" t="s"><v>{len(shared) - 1}</v></c>')
                    grow.append({"toks": [t]})
                    continue
                if is_feat and feature == "duration-cell" and i == 1 and j == 0:
                    if twin:
                        cells.append(f'<c r="{ref}"><v>1.5</v></c>')
                        grow.append({"v": 1.5})
                    else:
                        cells.append(f'<c r="{ref}" s="3"><v>1.5</v></c>')
                        grow.append({"any": True})
                    continue
                k = rng.random()
                last_col_guard = (j == cols - 1 and i == rows - 1) or (j == cols - 1 and i == 1) or (j == 0)
                if k < 0.12 and not last_col_guard:
                    grow.append({"empty": True})
                elif k < 0.5:
                    t = exp.text(tk.new("c"), s)
                    if rng.random() < 0.5:
                        shared.append(t)
                        cells.append(f'<c r="{ref}" t="s"><v>{len(shared) - 1}</v></c>')
                    else:
                        cells.append(f'<c r="{ref}" t="inlineStr"><is><t>{t}</t></is></c>')
                    grow.append({"toks": [t]})
                elif k < 0.65:
                    v = rng.randint(-10**6, 10**6)
                    cells.append(f'<c r="{ref}"><v>{v}</v></c>')
                    grow.append({"v": v})
                elif k < 0.75:
                    v = rng.choice([0.5, 1.25, -3.75, 1234.5, 1e-3, 2.5e10])
                    cells.append(f'<c r="{ref}"><v>{v!r}</v></c>')
                    grow.append({"v": v})
                elif k < 0.78:
                    lit, v = rng.choice([("1E+20", 1e20), ("5E-05", 5e-05), ("1E+3", 1000.0), ("0", 0), ("0.0", 0.0), ("-0", 0)])
                    cells.append(f'<c r="{ref}"><v>{lit}</v></c>')
                    grow.append({"v": v})
                elif k < 0.82:
                    v = rng.random() < 0.5
                    cells.append(f'<c r="{ref}" t="b"><v>{int(v)}</v></c>')
                    grow.append({"v": v})
                elif k < 0.86:
                    # ISO 8601 cell representation (t="d"), as strict-OOXML producers and openpyxl's iso_dates write it
                    iso = rng.choice([f"20{rng.randint(10, 29)}-02-{rng.randint(10, 28)}", f"20{rng.randint(10, 29)}-11-{rng.randint(10, 30)}T{rng.randint(10, 23)}:{rng.randint(10, 59)}:00"])
                    cells.append(f'<c r="{ref}" t="d" s="{1 if len(iso) == 10 else 2}"><v>{iso}</v></c>')
                    grow.append({"v": iso})
                elif k < 0.9:
                    serial = rng.randint(40000, 46000)   # whole-day dates, 1900 system
                    import datetime as _dt
                    d = _dt.datetime(1899, 12, 30) + _dt.timedelta(days=serial)
                    cells.append(f'<c r="{ref}" s="1"><v>{serial}</v></c>')
                    grow.append({"v": d.isoformat()})
                elif k < 0.925:
                    # a time of day: number format h:mm:ss, serial in [0, 1)
                    hh, mm, ss = rng.randint(0, 23), rng.randint(0, 59), rng.choice([0, 0, 30, 59])
                    cells.append(f'<c r="{ref}" s="4"><v>{(hh * 3600 + mm * 60 + ss) / 86400!r}</v></c>')
                    grow.append({"v": f"{hh:02d}:{mm:02d}:{ss:02d}"})
                elif k < 0.95:
                    v = rng.randint(1, 500)
                    cells.append(f'<c r="{ref}"><f>SUM(1,{v - 1})</f><v>{v}</v></c>')
                    grow.append({"v": v})
                else:
                    t = exp.text(tk.new("c"), s)
                    cells.append(f'<c r="{ref}" t="str"><f>"x"</f><v>{t}</v></c>')
                    grow.append({"toks": [t]})
            xml_rows.append(f'<row r="{i + 1 + row_off}">{"".join(cells)}</row>')
            grid.append(grow)
        # trailing trimming would change the shape: make sure last row and last column hold data
        if risky == "leading-empty-row" and s == feature_sheet:
            grid = [[{"empty": True}] * cols] + grid
        drawing_xml = ""
        n_img = 0
        if feature == "sheet-order-vs-file":
            n_img = 1 if s == 1 else 0
        elif feature == "image-size-unknown":
            n_img = 1 if s == feature_sheet else 0
        elif rng.random() < 0.3:
            n_img = rng.randint(1, 2)
        fno = file_no[s]
        # drawing parts are numbered in the order the pictures were inserted, not in sheet order (and drawing10 sorts before drawing2)
        dno = draw_no[s]
        if n_img:
            anchors, drels = [], []
            for _ in range(n_img):
                img_no += 1
                im = _rand_image(rng, img_no)
                if risky == "image-size-unknown":
                    blob = b"\x01\x00\x00\x00" + bytes(rng.randrange(256) for _ in range(120))
                    im = {"data": blob, "ctype": "image/x-emf", "ext": ".emf", "w": 0, "h": 0, "sha": sha1(blob)}
                name = f"image{img_no}{im['ext']}"
                parts[f"xl/media/{name}"] = im["data"]
                drels.append((f"rId{img_no}", REL_T + "image", f"../media/{name}", None))
                pic_xml = (f'<xdr:pic><xdr:nvPicPr><xdr:cNvPr id="{img_no}" name="Pic {img_no}" descr="d"/><xdr:cNvPicPr/></xdr:nvPicPr>'
                           f'<xdr:blipFill><a:blip xmlns:r="{R_NS}" r:embed="rId{img_no}"/><a:stretch><a:fillRect/></a:stretch></xdr:blipFill><xdr:spPr/></xdr:pic><xdr:clientData/>')
                if risky != "image-size-unknown" and random.Random(f"xlsx-anchor:{seed}:{img_no}").random() < 0.4:
                    # Excel's default anchor: two cells, no extent - the pixel size can only come from the picture file itself
                    anchors.append(f'<xdr:twoCellAnchor><xdr:from><xdr:col>1</xdr:col><xdr:colOff>0</xdr:colOff><xdr:row>{img_no}</xdr:row><xdr:rowOff>0</xdr:rowOff></xdr:from>'
                                   f'<xdr:to><xdr:col>3</xdr:col><xdr:colOff>0</xdr:colOff><xdr:row>{img_no + 2}</xdr:row><xdr:rowOff>0</xdr:rowOff></xdr:to>{pic_xml}</xdr:twoCellAnchor>')
                    exp.images.append({"sha": im["sha"], "ctype": im["ctype"], "w": im["w"] or None, "h": im["h"] or None, "unit": s + 1})
                    continue
                anchors.append(f'<xdr:oneCellAnchor><xdr:from><xdr:col>1</xdr:col><xdr:colOff>0</xdr:colOff><xdr:row>{img_no}</xdr:row><xdr:rowOff>0</xdr:rowOff></xdr:from>'
                               f'<xdr:ext cx="{im["w"] * 9525}" cy="{im["h"] * 9525}"/><xdr:pic><xdr:nvPicPr><xdr:cNvPr id="{img_no}" name="Pic {img_no}" descr="d"/><xdr:cNvPicPr/></xdr:nvPicPr>'
                               f'<xdr:blipFill><a:blip xmlns:r="{R_NS}" r:embed="rId{img_no}"/><a:stretch><a:fillRect/></a:stretch></xdr:blipFill><xdr:spPr/></xdr:pic><xdr:clientData/></xdr:oneCellAnchor>')
                exp.images.append({"sha": im["sha"], "ctype": im["ctype"], "w": im["w"] or None, "h": im["h"] or None, "unit": s + 1})
            parts[f"xl/drawings/drawing{dno}.xml"] = f'<?xml version="1.0" encoding="UTF-8"?><xdr:wsDr xmlns:xdr="{XDR}" xmlns:a="{A}">{"".join(anchors)}</xdr:wsDr>'.encode()
            parts[f"xl/drawings/_rels/drawing{dno}.xml.rels"] = _rels(drels)
            sheet_rels = [("rIdD", REL_T + "drawing", f"../drawings/drawing{dno}.xml", None)]
            legacy = ""
            if rng.random() < 0.4:
                # a cell comment: comments part + legacy VML drawing; relationship order inside a .rels part carries no meaning
                parts[f"xl/comments{fno}.xml"] = f'<?xml version="1.0"?><comments xmlns="{S}"><authors><author>a</author></authors><commentList><comment ref="A1" authorId="0"><text><r><t>note</t></r></text></comment></commentList></comments>'.encode()
                parts[f"xl/drawings/vmlDrawing{fno}.vml"] = b'<xml xmlns:v="urn:schemas-microsoft-com:vml" xmlns:o="urn:schemas-microsoft-com:office:office"><v:shape id="_x0000_s1025" type="#_x0000_t202"/></xml>'
                vml = [("rIdV", REL_T + "vmlDrawing", f"../drawings/vmlDrawing{fno}.vml", None), ("rIdC", REL_T + "comments", f"../comments{fno}.xml", None)]
                sheet_rels = vml + sheet_rels if rng.random() < 0.5 else sheet_rels + vml
                legacy = '<legacyDrawing r:id="rIdV"/>'
            parts[f"xl/worksheets/_rels/sheet{fno}.xml.rels"] = _rels(sheet_rels)
            drawing_xml = '<drawing r:id="rIdD"/>' + legacy
        dim_xml = f'<dimension ref="A1:{_col(cols - 1)}{max(rows, 1) + row_off}"/>'
        parts[f"xl/worksheets/sheet{fno}.xml"] = (f'<?xml version="1.0" encoding="UTF-8" standalone="yes"?><worksheet xmlns="{S}" xmlns:r="{R_NS}">'
                                                  f'{"" if (risky == "no-dimension" and s == feature_sheet) else dim_xml}<sheetData>{"".join(xml_rows)}</sheetData>{drawing_xml}</worksheet>').encode()
        wb_rels.append((f"rIdSh{s + 1}", REL_T + "worksheet", f"worksheets/sheet{fno}.xml", None))
        state = ' state="hidden"' if (risky == "hidden-sheet" and s == feature_sheet) else ""
        sheets_xml.append(f'<sheet name="{name_tok}" sheetId="{s + 1}"{state} r:id="rIdSh{s + 1}"/>')
        exp.tables.append({"grid": grid, "unit": s + 1})
    exp.n_units = n_sheets
    wb_rels.append(("rIdSS", REL_T + "sharedStrings", "sharedStrings.xml", None))
    wb_rels.append(("rIdSt", REL_T + "styles", "styles.xml", None))
    parts["xl/workbook.xml"] = f'<?xml version="1.0" encoding="UTF-8" standalone="yes"?><workbook xmlns="{S}" xmlns:r="{R_NS}"><sheets>{"".join(sheets_xml)}</sheets></workbook>'.encode()
    parts["xl/_rels/workbook.xml.rels"] = _rels(wb_rels)
    ss_rng = random.Random(f"sst:{seed}")

    def si(t):
        # a shared string is plain, or rich text split into runs (phonetic runs and properties are not text)
        k = ss_rng.random()
        if k < 0.75:
            return f"<si><t>{t}</t></si>"
        ph = f'<rPh sb="0" eb="1"><t>{exp.out(tk.new("r"))}</t></rPh><phoneticPr fontId="1"/>' if k > 0.92 else ""
        return f'<si><r><rPr><b/></rPr><t>{t}</t></r><r><t xml:space="preserve"> !</t></r>{ph}</si>'
    parts["xl/sharedStrings.xml"] = (f'<?xml version="1.0" encoding="UTF-8" standalone="yes"?><sst xmlns="{S}" count="{len(shared)}" uniqueCount="{len(shared)}">'
                                     + "".join(si(t) for t in shared) + "</sst>").encode()
    parts["xl/styles.xml"] = styles.encode()
    root_rels = [("rId1", REL_T + "officeDocument", "xl/workbook.xml", None)]
    overrides = {"/xl/workbook.xml": "application/vnd.openxmlformats-officedocument.spreadsheetml.sheet.main+xml",
                 "/xl/sharedStrings.xml": "application/vnd.openxmlformats-officedocument.spreadsheetml.sharedStrings+xml",
                 "/xl/styles.xml": "application/vnd.openxmlformats-officedocument.spreadsheetml.styles+xml"}
    for s in range(n_sheets):
        overrides[f"/xl/worksheets/sheet{s + 1}.xml"] = "application/vnd.openxmlformats-officedocument.spreadsheetml.worksheet+xml"
    for k in parts:
        if k.startswith("xl/drawings/drawing"):
            overrides["/" + k] = "application/vnd.openxmlformats-officedocument.drawing+xml"
    if risky != "no-core-props":
        parts["docProps/core.xml"] = _core(meta, random.Random(f"core:{seed}"))
        root_rels.append(("rId2", "http://schemas.openxmlformats.org/package/2006/relationships/metadata/core-properties", "docProps/core.xml", None))
        overrides["/docProps/core.xml"] = "application/vnd.openxmlformats-package.core-properties+xml"
    else:
        exp.meta = {}
    parts["_rels/.rels"] = _rels(root_rels)
    parts["[Content_Types].xml"] = _ct(IMG_DEFAULTS, overrides)
    order = ["[Content_Types].xml", "_rels/.rels"] + [k for k in parts if k not in ("[Content_Types].xml", "_rels/.rels")]
    return _zip(parts, order), exp
