"""Independent AES (FIPS-197) used as the oracle for C20 and to encrypt generated PDFs.

Written from the standard, not from the repository: the S-box is *computed* (multiplicative
inverse in GF(2^8) followed by the affine map), the state is a 4x4 matrix s[r][c], MixColumns
multiplies by the polynomial matrix with a generic GF multiply.  Nothing is shared with
sharepoint2text's implementation.
"""
from __future__ import annotations


def gmul(a: int, b: int) -> int:
    p = 0
    for _ in range(8):
        if b & 1:
            p ^= a
        hi = a & 0x80
        a = (a << 1) & 0xFF
        if hi:
            a ^= 0x1B
        b >>= 1
    return p


def _ginv(a: int) -> int:
    if a == 0:
        return 0
    # a^254 by square-and-multiply
    r, base, e = 1, a, 254
    while e:
        if e & 1:
            r = gmul(r, base)
        base = gmul(base, base)
        e >>= 1
    return r


def _affine(x: int) -> int:
    r = 0
    for i in range(8):
        bit = ((x >> i) ^ (x >> ((i + 4) % 8)) ^ (x >> ((i + 5) % 8)) ^ (x >> ((i + 6) % 8))
               ^ (x >> ((i + 7) % 8)) ^ (0x63 >> i)) & 1
        r |= bit << i
    return r


SBOX = [_affine(_ginv(x)) for x in range(256)]
INV_SBOX = [0] * 256
for _i, _v in enumerate(SBOX):
    INV_SBOX[_v] = _i


import functools

_MULT = {m: [gmul(x, m) for x in range(256)] for m in (1, 2, 3, 9, 11, 13, 14)}


@functools.lru_cache(maxsize=64)
def _expand_key_cached(key: bytes):
    return tuple(tuple(w) for w in _expand_key(key))


def expand_key(key: bytes) -> list[list[int]]:
    """Return the key schedule as a list of 4-byte words."""
    return [list(w) for w in _expand_key_cached(bytes(key))]


def _expand_key(key: bytes) -> list[list[int]]:
    nk = len(key) // 4
    if len(key) not in (16, 24, 32):
        raise ValueError("key length")
    nr = nk + 6
    w = [list(key[4 * i:4 * i + 4]) for i in range(nk)]
    rc = 1
    for i in range(nk, 4 * (nr + 1)):
        t = list(w[i - 1])
        if i % nk == 0:
            t = t[1:] + t[:1]
            t = [SBOX[b] for b in t]
            t[0] ^= rc
            rc = gmul(rc, 2)
        elif nk > 6 and i % nk == 4:
            t = [SBOX[b] for b in t]
        w.append([w[i - nk][j] ^ t[j] for j in range(4)])
    return w


def _to_state(block: bytes):
    return [[block[r + 4 * c] for c in range(4)] for r in range(4)]


def _from_state(s) -> bytes:
    return bytes(s[r][c] for c in range(4) for r in range(4))


def _ark(s, w, rnd):
    for c in range(4):
        for r in range(4):
            s[r][c] ^= w[4 * rnd + c][r]


def shift_rows(s):
    return [[s[r][(c + r) % 4] for c in range(4)] for r in range(4)]


def inv_shift_rows(s):
    return [[s[r][(c - r) % 4] for c in range(4)] for r in range(4)]


_MIX = [[2, 3, 1, 1], [1, 2, 3, 1], [1, 1, 2, 3], [3, 1, 1, 2]]
_IMIX = [[14, 11, 13, 9], [9, 14, 11, 13], [13, 9, 14, 11], [11, 13, 9, 14]]


def _mix(s, m):
    out = [[0] * 4 for _ in range(4)]
    for c in range(4):
        for r in range(4):
            v = 0
            for k in range(4):
                v ^= _MULT[m[r][k]][s[k][c]]
            out[r][c] = v
    return out


def mix_columns(s):
    return _mix(s, _MIX)


def inv_mix_columns(s):
    return _mix(s, _IMIX)


# Flat-state implementation of the same definitions (for speed): index permutations are *derived* from shift_rows /
# inv_shift_rows above, the column mixing uses the computed multiplication tables.
_SR = list(_from_state(shift_rows(_to_state(bytes(range(16))))))        # output byte i comes from input byte _SR[i]
_ISR = list(_from_state(inv_shift_rows(_to_state(bytes(range(16))))))
_M2, _M3, _M9, _M11, _M13, _M14 = (_MULT[m] for m in (2, 3, 9, 11, 13, 14))


@functools.lru_cache(maxsize=64)
def _round_keys(key: bytes):
    w = _expand_key_cached(bytes(key))
    return tuple(tuple(b for word in w[4 * r:4 * r + 4] for b in word) for r in range(len(w) // 4))


def encrypt_block(key: bytes, block: bytes) -> bytes:
    rks = _round_keys(bytes(key))
    nr = len(rks) - 1
    s = [b ^ k for b, k in zip(block, rks[0])]
    sbox, sr, m2, m3 = SBOX, _SR, _M2, _M3
    for rnd in range(1, nr + 1):
        t = [sbox[s[sr[i]]] for i in range(16)]
        rk = rks[rnd]
        if rnd != nr:
            s = []
            for c in (0, 4, 8, 12):
                a0, a1, a2, a3 = t[c], t[c + 1], t[c + 2], t[c + 3]
                s += [m2[a0] ^ m3[a1] ^ a2 ^ a3 ^ rk[c], a0 ^ m2[a1] ^ m3[a2] ^ a3 ^ rk[c + 1],
                      a0 ^ a1 ^ m2[a2] ^ m3[a3] ^ rk[c + 2], m3[a0] ^ a1 ^ a2 ^ m2[a3] ^ rk[c + 3]]
        else:
            s = [x ^ k for x, k in zip(t, rk)]
    return bytes(s)


def decrypt_block(key: bytes, block: bytes) -> bytes:
    rks = _round_keys(bytes(key))
    nr = len(rks) - 1
    s = [b ^ k for b, k in zip(block, rks[nr])]
    isbox, isr = INV_SBOX, _ISR
    for rnd in range(nr - 1, -1, -1):
        t = [isbox[s[isr[i]]] for i in range(16)]
        rk = rks[rnd]
        t = [x ^ k for x, k in zip(t, rk)]
        if rnd != 0:
            s = []
            for c in (0, 4, 8, 12):
                a0, a1, a2, a3 = t[c], t[c + 1], t[c + 2], t[c + 3]
                s += [_M14[a0] ^ _M11[a1] ^ _M13[a2] ^ _M9[a3], _M9[a0] ^ _M14[a1] ^ _M11[a2] ^ _M13[a3],
                      _M13[a0] ^ _M9[a1] ^ _M14[a2] ^ _M11[a3], _M11[a0] ^ _M13[a1] ^ _M9[a2] ^ _M14[a3]]
        else:
            s = t
    return bytes(s)


def encrypt_block_slow(key: bytes, block: bytes) -> bytes:
    """Textbook matrix form (kept as a cross-check of the flat form in self_test)."""
    w = expand_key(key)
    nr = len(w) // 4 - 1
    s = _to_state(block)
    _ark(s, w, 0)
    for rnd in range(1, nr + 1):
        s = [[SBOX[b] for b in row] for row in s]
        s = shift_rows(s)
        if rnd != nr:
            s = mix_columns(s)
        _ark(s, w, rnd)
    return _from_state(s)


def decrypt_block_slow(key: bytes, block: bytes) -> bytes:
    w = expand_key(key)
    nr = len(w) // 4 - 1
    s = _to_state(block)
    _ark(s, w, nr)
    for rnd in range(nr - 1, -1, -1):
        s = inv_shift_rows(s)
        s = [[INV_SBOX[b] for b in row] for row in s]
        _ark(s, w, rnd)
        if rnd != 0:
            s = inv_mix_columns(s)
    return _from_state(s)


def ecb_encrypt(key: bytes, data: bytes) -> bytes:
    assert len(data) % 16 == 0
    return b"".join(encrypt_block(key, data[i:i + 16]) for i in range(0, len(data), 16))


def ecb_decrypt(key: bytes, data: bytes) -> bytes:
    assert len(data) % 16 == 0
    return b"".join(decrypt_block(key, data[i:i + 16]) for i in range(0, len(data), 16))


def cbc_encrypt(key: bytes, iv: bytes, data: bytes) -> bytes:
    assert len(data) % 16 == 0 and len(iv) == 16
    out, prev = [], iv
    for i in range(0, len(data), 16):
        blk = bytes(a ^ b for a, b in zip(data[i:i + 16], prev))
        prev = encrypt_block(key, blk)
        out.append(prev)
    return b"".join(out)


def cbc_decrypt(key: bytes, iv: bytes, data: bytes) -> bytes:
    assert len(data) % 16 == 0 and len(iv) == 16
    out, prev = [], iv
    for i in range(0, len(data), 16):
        blk = data[i:i + 16]
        out.append(bytes(a ^ b for a, b in zip(decrypt_block(key, blk), prev)))
        prev = blk
    return b"".join(out)


def pkcs7_pad(m: bytes) -> bytes:
    n = 16 - len(m) % 16
    return m + bytes([n]) * n


class RefCryptAES:
    """Reference for pypdf's CryptAES contract: IV || CBC(pad(m))."""

    def __init__(self, key: bytes):
        self.key = key

    def encrypt(self, data: bytes, iv: bytes) -> bytes:
        return iv + cbc_encrypt(self.key, iv, pkcs7_pad(data))

    def decrypt(self, data: bytes) -> bytes:
        iv, payload = data[:16], data[16:]
        if not payload:
            return b""
        p = cbc_decrypt(self.key, iv, payload)
        return p[:-p[-1]]


# FIPS-197 Appendix C and SP 800-38A F.1 / F.2 known answers (hex), embedded verbatim.
KAT_BLOCK = [
    ("000102030405060708090a0b0c0d0e0f", "00112233445566778899aabbccddeeff", "69c4e0d86a7b0430d8cdb78070b4c55a"),
    ("000102030405060708090a0b0c0d0e0f1011121314151617", "00112233445566778899aabbccddeeff", "dda97ca4864cdfe06eaf70a0ec0d7191"),
    ("000102030405060708090a0b0c0d0e0f101112131415161718191a1b1c1d1e1f", "00112233445566778899aabbccddeeff", "8ea2b7ca516745bfeafc49904b496089"),
]
_PT = ("6bc1bee22e409f96e93d7e117393172a" "ae2d8a571e03ac9c9eb76fac45af8e51"
       "30c81c46a35ce411e5fbc1191a0a52ef" "f69f2445df4f9b17ad2b417be66c3710")
KAT_ECB = [
    ("2b7e151628aed2a6abf7158809cf4f3c", _PT,
     "3ad77bb40d7a3660a89ecaf32466ef97" "f5d3d58503b9699de785895a96fdbaaf"
     "43b1cd7f598ece23881b00e3ed030688" "7b0c785e27e8ad3f8223207104725dd4"),
    ("8e73b0f7da0e6452c810f32b809079e562f8ead2522c6b7b", _PT,
     "bd334f1d6e45f25ff712a214571fa5cc" "974104846d0ad3ad7734ecb3ecee4eef"
     "ef7afd2270e2e60adce0ba2face6444e" "9a4b41ba738d6c72fb16691603c18e0e"),
    ("603deb1015ca71be2b73aef0857d77811f352c073b6108d72d9810a30914dff4", _PT,
     "f3eed1bdb5d2a03c064b5a7e3db181f8" "591ccb10d410ed26dc5ba74a31362870"
     "b6ed21b99ca6f4f9f153e7b1beafed1d" "23304b7a39f9f3ff067d8d8f9e24ecc7"),
]
_IV = "000102030405060708090a0b0c0d0e0f"
KAT_CBC = [
    ("2b7e151628aed2a6abf7158809cf4f3c", _IV, _PT,
     "7649abac8119b246cee98e9b12e9197d" "5086cb9b507219ee95db113a917678b2"
     "73bed6b8e3c1743b7116e69e22229516" "3ff1caa1681fac09120eca307586e1a7"),
    ("8e73b0f7da0e6452c810f32b809079e562f8ead2522c6b7b", _IV, _PT,
     "4f021db243bc633d7178183a9fa071e8" "b4d9ada9ad7dedf4e5e738763f69145a"
     "571b242012fb7ae07fa9baac3df102e0" "08b0e27988598881d920a9e64f5615cd"),
    ("603deb1015ca71be2b73aef0857d77811f352c073b6108d72d9810a30914dff4", _IV, _PT,
     "f58c4c04d6e5f1ba779eabfb5f7bfbd6" "9cfc4e967edb808d679f777bc6702c7d"
     "39f23369a9d9bacfa530e26304231461" "b2eb05e2c39be9fcda6c19078c6a9d1b"),
]


def self_test() -> None:
    h = bytes.fromhex
    assert SBOX[0] == 0x63 and SBOX[0x53] == 0xED and INV_SBOX[0x63] == 0
    for k, p, c in KAT_BLOCK:
        assert encrypt_block(h(k), h(p)) == h(c) == encrypt_block_slow(h(k), h(p))
        assert decrypt_block(h(k), h(c)) == h(p) == decrypt_block_slow(h(k), h(c))
    import random as _r
    rr = _r.Random(1)
    for _ in range(60):
        k = bytes(rr.randrange(256) for _ in range(rr.choice((16, 24, 32))))
        b = bytes(rr.randrange(256) for _ in range(16))
        assert encrypt_block(k, b) == encrypt_block_slow(k, b) and decrypt_block(k, b) == decrypt_block_slow(k, b)
    for k, p, c in KAT_ECB:
        assert ecb_encrypt(h(k), h(p)) == h(c) and ecb_decrypt(h(k), h(c)) == h(p)
    for k, iv, p, c in KAT_CBC:
        assert cbc_encrypt(h(k), h(iv), h(p)) == h(c) and cbc_decrypt(h(k), h(iv), h(c)) == h(p)
