"""Unique class-tagged tokens: q<class><5 digits>z — every text leaf is identifiable in any output."""
from __future__ import annotations

import re

TOKEN_RE = re.compile(r"q([a-z])(\d{5})z")

CLASSES = {
    "b": "body paragraph", "h": "heading", "c": "table cell", "k": "hyperlink text", "x": "text box",
    "l": "list item", "n": "note / speaker note", "m": "comment / annotation", "f": "header / footer",
    "d": "tracked deletion", "r": "content of removed markup", "s": "sheet name", "t": "title / metadata",
    "a": "attachment body", "v": "visible after removed element", "i": "tracked insertion", "e": "content control",
    "u": "unclaimed construct",
}


class Tokens:
    def __init__(self, start: int = 0):
        self.n = start

    def new(self, cls: str) -> str:
        assert cls in CLASSES, cls
        self.n += 1
        return f"q{cls}{self.n:05d}z"


def find(text: str) -> list[str]:
    return [m.group(0) for m in TOKEN_RE.finditer(text or "")]


def glued_pairs(text: str) -> list[tuple[str, str]]:
    """Pairs of tokens that appear in one whitespace-free word directly adjacent (e.g. qb00001zqb00002z)."""
    out = []
    for m in re.finditer(r"(q[a-z]\d{5}z)(?=(q[a-z]\d{5}z))", text or ""):
        out.append((m.group(1), m.group(2)))
    return out
