"""Archive builders over member lists (reference writers: zipfile, tarfile, vlib.gen.sevenz) incl. hostile forms.

member: {"name": str, "data": bytes|None, "type": "file"|"dir"|"symlink"|"hardlink"|"fifo"|"chardev"|"blockdev", "link": str,
         "encrypted": bool (zip flag bit), "phantom": bool (7z entry without data stream), "declared_size": int (forged),
         "attr": int (7z: Windows attribute word written instead of the default 0x10 / 0x20; zip: external_attr)}

TAR layouts come in the three header formats tarfile writes: the plain names ("tar", "tar.gz", ...) are PAX (tarfile's
default), "<name>+gnu" is GNU tar's default format (magic "ustar  \0", long names through ././@LongLink records),
"<name>+ustar" the POSIX.1-1988 format (names limited to 100 + 155 bytes: tarfile raises ValueError beyond that).
"""
from __future__ import annotations

import io
import tarfile
import zipfile

from . import sevenz

ZIP_LAYOUTS = ["zip-stored", "zip-deflated"]
TAR_LAYOUTS = ["tar", "tar.gz", "tar.bz2", "tar.xz"]
SEVENZ_LAYOUTS = [f"7z-{c}-{l}{h}" for c in ("copy", "lzma", "lzma2") for l in ("solid", "per-file", "pairs") for h in ("", "-enchdr")] + ["7z-mixed-per-file"]
ALL_LAYOUTS = ZIP_LAYOUTS + TAR_LAYOUTS + SEVENZ_LAYOUTS
TAR_FORMATS = {"pax": tarfile.PAX_FORMAT, "gnu": tarfile.GNU_FORMAT, "ustar": tarfile.USTAR_FORMAT}
TAR_FORMAT_LAYOUTS = [f"{l}+{f}" for f in ("gnu", "ustar") for l in TAR_LAYOUTS]      # header format x compression
EXTENDED_LAYOUTS = ALL_LAYOUTS + TAR_FORMAT_LAYOUTS
EXT = {"zip": ".zip", "tar": ".tar", "tar.gz": ".tar.gz", "tar.bz2": ".tar.bz2", "tar.xz": ".tar.xz", "7z": ".7z"}


def family(layout: str) -> str:
    if layout.startswith("zip"):
        return "zip"
    if layout.startswith("7z"):
        return "7z"
    return layout.split("+", 1)[0]


NESTED_LAYOUT_BY_SUFFIX = [(".tar.gz", "tar.gz"), (".tgz", "tar.gz"), (".tar.bz2", "tar.bz2"), (".tbz2", "tar.bz2"), (".tar.xz", "tar.xz"), (".txz", "tar.xz"),
                           (".tar", "tar"), (".zip", "zip-stored"), (".7z", "7z-copy-solid"), (".gz", "tar.gz"), (".bz2", "tar.bz2"), (".xz", "tar.xz"),
                           (".tbz", "tar.bz2"), (".tb2", "tar.bz2"), (".taz", "tar.gz"), (".tz", "tar.gz"), (".tlz", "tar.xz")]


def nested_for(name: str, inner_members: list[dict]) -> bytes:
    """A *readable* archive of the container type the member name ``name`` announces (case-insensitive suffix; a bare .gz / .bz2 / .xz holds a
    compressed TAR), holding ``inner_members`` - what a nested archive member really is."""
    low = name.lower()
    for suf, layout in NESTED_LAYOUT_BY_SUFFIX:
        if low.endswith(suf):
            return build(layout, inner_members)
    return build("tar.gz", inner_members)       # any other archive-like name: the type is sniffed from the bytes anyway


def tar_format(layout: str) -> str:
    """Header format of a TAR layout name: "pax" (default), "gnu" or "ustar"."""
    return layout.split("+", 1)[1] if "+" in layout else "pax"


def ext_of(layout: str) -> str:
    return EXT[family(layout)]


def build(layout: str, members: list[dict], *, dict_size: int | None = None, substreams: bool = True, bare_empty: bool = False,
          declared_dict: int | None = None) -> bytes:
    """``dict_size`` (7z LZMA / LZMA2 folders: dictionary used and declared) and ``substreams`` (7z: write the SubStreamsInfo section)
    only matter for 7z layouts; a member's ``declared_size`` is honoured by the 7z writer (digests are left out then)."""
    fam = family(layout)
    if fam == "zip":
        return _zip(members, zipfile.ZIP_STORED if layout == "zip-stored" else zipfile.ZIP_DEFLATED)
    if fam == "7z":
        return _7z(layout, members, dict_size, substreams, bare_empty, declared_dict)
    return _tar(members, {"tar": "w", "tar.gz": "w:gz", "tar.bz2": "w:bz2", "tar.xz": "w:xz"}[fam], TAR_FORMATS[tar_format(layout)])


def _zip(members, method) -> bytes:
    import warnings
    bio = io.BytesIO()
    with warnings.catch_warnings(), zipfile.ZipFile(bio, "w", method) as z:
        warnings.simplefilter("ignore", UserWarning)       # repeated member names are an input class (zipfile warns "Duplicate name")
        for m in members:
            t = m.get("type", "file")
            name = m["name"]
            if t == "dir":
                zi = zipfile.ZipInfo(name if name.endswith("/") else name + "/", date_time=(2024, 1, 2, 3, 4, 6))
                zi.external_attr = 0o40755 << 16 | 0x10
                z.writestr(zi, b"")
                continue
            zi = zipfile.ZipInfo(name, date_time=(2024, 1, 2, 3, 4, 6))
            zi.external_attr = 0o100644 << 16
            if m.get("attr") is not None:
                zi.external_attr = m["attr"] & 0xFFFFFFFF
            if t == "symlink":
                zi.external_attr = 0o120777 << 16
                z.writestr(zi, m.get("link", "").encode(), zipfile.ZIP_STORED)
                continue
            zi.compress_type = method
            z.writestr(zi, m.get("data") or b"")
    raw = bytearray(bio.getvalue())
    # zipfile sanitises nothing on write except NUL handling; forge flag bits afterwards when asked for
    if any(m.get("encrypted") for m in members):
        import re
        enc_names = {m["name"].encode("utf-8") for m in members if m.get("encrypted")}
        for sig, flag_off, name_len_off, name_off in ((b"PK\x03\x04", 6, 26, 30), (b"PK\x01\x02", 8, 28, 46)):
            for mt in re.finditer(re.escape(sig), bytes(raw)):
                p = mt.start()
                nlen = int.from_bytes(raw[p + name_len_off:p + name_len_off + 2], "little")
                if bytes(raw[p + name_off:p + name_off + nlen]) in enc_names:
                    raw[p + flag_off] |= 0x01
    return bytes(raw)


def _tar(members, mode, fmt=tarfile.PAX_FORMAT) -> bytes:
    bio = io.BytesIO()
    with tarfile.open(fileobj=bio, mode=mode, format=fmt) as t:
        for m in members:
            ti = tarfile.TarInfo(m["name"])
            ti.mtime = 1704164646
            ty = m.get("type", "file")
            if ty == "dir":
                ti.type = tarfile.DIRTYPE
                ti.mode = 0o755
                t.addfile(ti)
            elif ty == "symlink":
                ti.type = tarfile.SYMTYPE
                ti.linkname = m.get("link", "")
                t.addfile(ti)
            elif ty == "hardlink":
                ti.type = tarfile.LNKTYPE
                ti.linkname = m.get("link", "")
                t.addfile(ti)
            elif ty == "fifo":
                ti.type = tarfile.FIFOTYPE
                t.addfile(ti)
            elif ty == "chardev":
                ti.type = tarfile.CHRTYPE
                ti.devmajor, ti.devminor = 1, 3
                t.addfile(ti)
            elif ty == "blockdev":
                ti.type = tarfile.BLKTYPE
                ti.devmajor, ti.devminor = 8, 0
                t.addfile(ti)
            else:
                data = m.get("data") or b""
                ti.size = len(data)
                t.addfile(ti, io.BytesIO(data))
    return bio.getvalue()


def _7z(layout: str, members, dict_size=None, substreams=True, bare_empty=False, declared_dict=None) -> bytes:
    parts = layout.split("-")
    enc = layout.endswith("-enchdr")
    if parts[1] == "mixed":
        coder, lay, mixed = sevenz.LZMA, "per-file", [sevenz.COPY, sevenz.LZMA, sevenz.LZMA2]
    else:
        coder = {"copy": sevenz.COPY, "lzma": sevenz.LZMA, "lzma2": sevenz.LZMA2}[parts[1]]
        lay = "per-file" if parts[2] == "per" else parts[2]
        mixed = None
    entries = []
    for m in members:
        ty = m.get("type", "file")
        if ty == "dir":
            entries.append({"name": m["name"].rstrip("/") if m.get("strip_slash", True) else m["name"], "data": None, "attr": m.get("attr")})
        elif ty == "file":
            entries.append({"name": m["name"], "data": m.get("data") or b"", "phantom": bool(m.get("phantom")), "attr": m.get("attr"),
                            "declared_size": m.get("declared_size")})
        # links / devices have no 7z form in this writer
    forged = any(e.get("declared_size") is not None for e in entries)
    return sevenz.make_7z(entries, coder=coder, layout=lay, encoded_header=enc, mixed_coders=mixed, dict_size=dict_size,
                          with_substreams=substreams, with_crc=not forged, bare_empty=bare_empty, declared_dict=declared_dict)
