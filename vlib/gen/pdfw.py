"""Minimal hand-written PDF 1.4 writer (base-14 Helvetica, Tj/T* text lines, DCT image XObjects) with ground truth."""
from __future__ import annotations

import random

from . import images as IMG
from .expect import Expect
from .tokens import Tokens
from ..obs import sha1

PDF_FEATURES = {
    "multi-image-pages": "one image on each of three pages (numbering must run 1..n) (twin: three images on one page)",
    "image-only-page": "a page that has an image but no text (twin: image and a text line)",
    "empty-page": "a page with an empty content stream (twin: one text line)",
    "large-image": "a picture of 20-120 KB (JPEG with application segments), i.e. a file well above 10 KiB and far below 10 MB (twin: the same picture without the segments)",
    "shared-image-xobject": "one image XObject (a logo) referenced from the resources of every page and drawn on each, next to pictures of the page's own (twin: one object per page holding the same bytes)",
    "shared-content-stream": "stamped / mail-merge layout: every page's /Contents is the same object 'q /Fm0 Do Q' and each page binds /Fm0 to its own form XObject holding that page's text (twin: one such content stream per page)",
}


class PdfWriter:
    def __init__(self):
        self.objs: list[bytes] = []

    def add(self, body: bytes) -> int:
        self.objs.append(body)
        return len(self.objs)

    def reserve(self) -> int:
        self.objs.append(b"")
        return len(self.objs)

    def set(self, n: int, body: bytes):
        self.objs[n - 1] = body

    def stream(self, dict_body: bytes, data: bytes) -> bytes:
        return b"<< " + dict_body + b" /Length %d >>\nstream\n" % len(data) + data + b"\nendstream"

    def finish(self, root: int, info: int | None = None, extra_trailer: bytes = b"") -> bytes:
        out = bytearray(b"%PDF-1.4\n%\xe2\xe3\xcf\xd3\n")
        offs = []
        for i, body in enumerate(self.objs, 1):
            offs.append(len(out))
            out += b"%d 0 obj\n" % i + body + b"\nendobj\n"
        xref = len(out)
        out += b"xref\n0 %d\n" % (len(self.objs) + 1)
        out += b"0000000000 65535 f \n"
        for o in offs:
            out += b"%010d 00000 n \n" % o
        tr = b"<< /Size %d /Root %d 0 R" % (len(self.objs) + 1, root)
        if info:
            tr += b" /Info %d 0 R" % info
        tr += extra_trailer + b" >>"
        out += b"trailer\n" + tr + b"\nstartxref\n%d\n%%%%EOF\n" % xref
        return bytes(out)


def make_pdf(pages: list[dict], info: dict | None = None) -> bytes:
    """pages: [{"lines": [str], "images": [{"data","w","h"}]}]"""
    w = PdfWriter()
    catalog = w.reserve()
    pages_id = w.reserve()
    font = w.add(b"<< /Type /Font /Subtype /Type1 /BaseFont /Helvetica /Encoding /WinAnsiEncoding >>")
    kids = []
    shared_cid = None
    shared_imgs: dict = {}
    for pg in pages:
        xobjs = []
        content = bytearray()
        y = 760
        if pg.get("lines"):
            content += b"BT /F1 11 Tf 14 TL 50 %d Td\n" % y
            for ln in pg["lines"]:
                esc = ln.replace("\\", "\\\\").replace("(", "\\(").replace(")", "\\)")
                content += b"(" + esc.encode("cp1252") + b") Tj T*\n"
                y -= 14
            content += b"ET\n"
        for k, im in enumerate(pg.get("images", []), 1):
            # the same JPEG behind different (legal) filter chains: the last filter names the image encoding
            chain = im.get("chain", "plain")
            payload, filt = im["data"], b"/DCTDecode"
            if chain == "array1":
                filt = b"[/DCTDecode]"
            elif chain == "asciihex":
                payload, filt = im["data"].hex().encode() + b">", b"[/ASCIIHexDecode /DCTDecode]"
            elif chain == "flate":
                import zlib
                payload, filt = zlib.compress(im["data"]), b"[/FlateDecode /DCTDecode]"
            if im.get("share") is not None and im["share"] in shared_imgs:
                oid = shared_imgs[im["share"]]          # the same indirect object again, on another page
            else:
                oid = w.add(w.stream(b"/Type /XObject /Subtype /Image /Width %d /Height %d /ColorSpace /DeviceRGB /BitsPerComponent 8 /Filter " % (im["w"], im["h"]) + filt + im.get("extra", b""), payload))
                if im.get("share") is not None:
                    shared_imgs[im["share"]] = oid
            xobjs.append((b"Im%d" % k, oid))
            y -= 60
            content += b"q 50 0 0 50 50 %d cm /Im%d Do Q\n" % (max(y, 20), k)
        form_id = None
        if pg.get("as_form"):
            # the page's drawing operators live in a form XObject; the content stream only invokes it
            form_id = w.add(w.stream(b"/Type /XObject /Subtype /Form /BBox [0 0 612 792] /Resources << /Font << /F1 %d 0 R >> >>" % font, bytes(content)))
            if pg["as_form"] == "shared":
                if shared_cid is None:
                    shared_cid = w.add(w.stream(b"", b"q /Fm0 Do Q\n"))
                cid = shared_cid
            else:
                cid = w.add(w.stream(b"", b"q /Fm0 Do Q\n"))
        else:
            cid = w.add(w.stream(b"", bytes(content)))
        if form_id:
            xobjs.append((b"Fm0", form_id))
        # a page whose text is drawn inside a form XObject has no reason to name a font itself: the form's own resources do
        res = b"<<" if form_id else b"<< /Font << /F1 %d 0 R >>" % font
        if xobjs:
            res += b" /XObject << " + b" ".join(b"/" + n + b" %d 0 R" % o for n, o in xobjs) + b" >>"
        res += b" >>"
        pid = w.add(b"<< /Type /Page /Parent %d 0 R /MediaBox [0 0 612 792] /Resources " % pages_id + res + b" /Contents %d 0 R >>" % cid)
        kids.append(pid)
    w.set(pages_id, b"<< /Type /Pages /Count %d /Kids [" % len(kids) + b" ".join(b"%d 0 R" % k for k in kids) + b"] >>")
    w.set(catalog, b"<< /Type /Catalog /Pages %d 0 R >>" % pages_id)
    info_id = None
    if info:
        body = b"<< " + b" ".join(b"/" + k.encode() + b" (" + v.encode("latin-1", "replace") + b")" for k, v in info.items()) + b" >>"
        info_id = w.add(body)
    return w.finish(catalog, info_id)


def build_pdf(seed: int, feature: str | None = None, twin: bool = False):
    rng = random.Random(f"pdf:{seed}")
    tk = Tokens()
    exp = Expect("pdf")
    exp.unit_mode = "exact"
    exp.join_equality = True
    exp.images_claimed = True
    if feature:
        exp.features.add(feature if not twin else feature + "#twin")
    n_pages = rng.randint(1, 5)
    if feature in ("multi-image-pages", "shared-content-stream", "shared-image-xobject"):
        n_pages = max(3, n_pages)
    if feature in ("image-only-page", "empty-page"):
        n_pages = max(2, n_pages)
    fpage = rng.randrange(n_pages)
    pages = []
    placed_clean = False
    for p in range(n_pages):
        lines = []
        for _ in range(rng.randint(1, 6)):
            cls = "h" if rng.random() < 0.15 else "b"
            lines.append(" ".join(exp.text(tk.new(cls), p) for _ in range(rng.randint(1, 4))))
        if feature is None and rng.random() < 0.3:
            # a block that reads like a financial table: a header fixing N value columns, label rows with N values, and rows
            # with surplus numeric tokens in every spelling a report uses (the table heuristics must cope, the text must stay)
            ncol = rng.randint(2, 4)
            lines.append("Item " + " ".join(str(2020 + k) for k in range(ncol)))

            def num():
                return rng.choice([str(rng.randint(0, 999)), f"{rng.randint(0, 99)}.{rng.randint(0, 9)}", f"{rng.randint(1, 9)},{rng.randint(100, 999)}",
                                   f"{rng.randint(0, 99)}.{rng.randint(0, 9)}%", f"({rng.randint(1, 99)})", f"-{rng.randint(1, 999)}", f"{rng.randint(1, 9)}"])
            for _ in range(rng.randint(2, 5)):
                extra = rng.choice([0, 0, 0, 1, 2, 3])
                lines.append(exp.text(tk.new("b"), p) + " " + " ".join(num() for _ in range(ncol + extra)))
        imgs = []

        def img(pad=0):
            wpx, hpx = rng.randint(2, 40), rng.randint(2, 40)
            data = IMG.jpeg(wpx, hpx, rng.randrange(1 << 16))
            if pad:
                # application segments (APP15) of incompressible bytes right after SOI: a legal JPEG of realistic size
                prng = random.Random(f"pdf-pad:{seed}:{p}")
                segs = b""
                while pad > 0:
                    n = min(pad, 60000)
                    segs += b"\xff\xef" + (n + 2).to_bytes(2, "big") + prng.randbytes(n)
                    pad -= n
                data = data[:2] + segs + data[2:]
            exp.images.append({"sha": sha1(data), "ctype": "image/jpeg", "w": wpx, "h": hpx, "unit": p + 1})
            # optional alternate-text entries in the forms a PDF may legally (or sloppily) carry them
            extra = rng.choice([b"", b"", b" /Alt (plain alt text)", b" /Alt (Stra\303\237e raw utf-8)", b" /Alt <FEFF00C400620063>", b" /Alt [1 2]", b" /Title (a title) /Alt ()",
                                b" /Alt (caf\351 \237 undefined in PDFDocEncoding)", b" /TU /NameObject", b" /Alt 42"])
            return {"data": data, "w": wpx, "h": hpx, "extra": extra, "chain": rng.choice(["plain", "plain", "array1", "asciihex", "flate"])}

        if feature == "multi-image-pages":
            if twin:
                if p == 0:
                    imgs = [img(), img(), img()]
            elif p < 3:
                imgs = [img()]
        elif feature == "shared-image-xobject":
            if p == 0:
                logo = img()
                exp.images.pop()
                logo["extra"] = b""
            own = [img() for _ in range(rng.choice([0, 1, 1, 2]) if p != n_pages - 1 else 0)]
            place = rng.randrange(len(own) + 1)
            imgs = own[:place] + [dict(logo, share=None if twin else "logo")] + own[place:]
            # ground truth in drawing order for this page
            del exp.images[len(exp.images) - len(own):]
            for im in imgs:
                exp.images.append({"sha": sha1(im["data"]), "ctype": "image/jpeg", "w": im["w"], "h": im["h"], "unit": p + 1})
        elif feature == "large-image" and p == fpage:
            imgs = [img(pad=0 if twin else rng.randint(20000, 120000))]
        elif feature == "image-only-page" and p == fpage:
            imgs = [img()]
            if not twin:
                for ln in lines:
                    for t in ln.split():
                        exp.seq.remove(t)
                        exp.unit_of.pop(t)
                lines = []
        elif feature == "empty-page" and p == fpage:
            for ln in lines:
                for t in ln.split():
                    exp.seq.remove(t)
                    exp.unit_of.pop(t)
            lines = [exp.text(tk.new("b"), p)] if twin else []
        elif feature is None and rng.random() < 0.4:
            imgs = [img() for _ in range(rng.randint(1, 3))]     # pictures on any pages, picture-free pages in between (numbers run through the document)
        as_form = ("own" if twin else "shared") if feature == "shared-content-stream" else None
        if feature is None and not imgs and random.Random(f"pdf-form-page:{seed}:{p}").random() < 0.2:
            as_form = "own"       # an imported / stamped page: the content stream only invokes a form XObject that holds text and font
        pages.append({"lines": lines, "images": imgs, "as_form": as_form})
    exp.n_units = n_pages
    meta = {"Title": exp.ignore(tk.new("t")), "Author": exp.ignore(tk.new("t"))}
    return make_pdf(pages, meta), exp


BUILDERS = {"pdf": (build_pdf, PDF_FEATURES, "pdf", ".pdf")}
