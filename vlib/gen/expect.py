"""Ground truth recorded by the renderers while they write a document, and the oracles over it.

A renderer calls ``exp.text(tok, unit)`` for every token it writes into body text that the
documentation puts into get_full_text() (state *in*), ``exp.out(tok)`` for tokens the
documentation excludes, ``exp.ignore(tok)`` for unclaimed constructs, ``exp.table_only(tok)``
for table text of formats that keep tables out of the full text.  Oracles return a list of
(symptom, detail) pairs; mapping to finding keys is the check's business.
"""
from __future__ import annotations

import re

from . import tokens as T


class Expect:
    def __init__(self, fmt: str):
        self.fmt = fmt
        self.seq: list[str] = []            # 'in' tokens in document order
        self.unit_of: dict[str, int] = {}   # token -> unit index (0-based)
        self.outs: set[str] = set()
        self.ignored: set[str] = set()
        self.tables_only: set[str] = set()
        self.heading_toks: set[str] = set()
        self.n_units: int | None = None     # None = not claimed
        self.unit_mode: str = "exact"       # exact | one-or-sections | none
        self.expected_numbers: list[int] | None = None   # source positions when they are not simply 1..n (EPUB spine positions)
        self.join_equality: bool = False
        self.tables: list[dict] = []        # {"unit": k, "grid": [[cell]]}; cell = {"toks":[...]} | {"v": value} | {"empty": True}
        self.tables_claimed: bool = False
        self.nested_tables: int | None = None  # tables of a nested construct (not in self.tables); their number is claimed even when tables_claimed is False
        self.images: list[dict] = []        # {"sha","ctype","w","h","unit"}
        self.images_claimed: bool = False
        self.meta: dict[str, str] = {}
        self.features: set[str] = set()
        self.decoration: list[str] = []     # literal strings allowed to appear (sheet names etc.)
        self.verbatim: str | None = None    # plain-text family: the decoded source text
        self.repeats: dict[str, int] = {}       # a non-token label and how many separate leaves of the source hold exactly it ("same multiplicity")
        self.literals: list[str] | None = None   # None = not claimed; else every non-token visible string the source holds: what is left of the
                                                 # output once tokens, these strings and the decoration are taken out must hold no letter or digit
        self.between: list[tuple[str, str, str]] = []   # (token a, token b, text that must stand between them, modulo whitespace)

    # ---- recording
    def text(self, tok: str, unit: int = 0, heading: bool = False) -> str:
        self.seq.append(tok)
        self.unit_of[tok] = unit
        if heading:
            self.heading_toks.add(tok)
        return tok

    def out(self, tok: str) -> str:
        self.outs.add(tok)
        return tok

    def ignore(self, tok: str) -> str:
        self.ignored.add(tok)
        return tok

    def table_only(self, tok: str, unit: int = 0) -> str:
        self.tables_only.add(tok)
        self.unit_of[tok] = unit
        return tok

    def to_json(self) -> dict:
        return {
            "fmt": self.fmt, "seq": self.seq, "unit_of": self.unit_of, "outs": sorted(self.outs),
            "ignored": sorted(self.ignored), "tables_only": sorted(self.tables_only),
            "heading_toks": sorted(self.heading_toks), "n_units": self.n_units, "unit_mode": self.unit_mode,
            "join_equality": self.join_equality, "tables": self.tables, "tables_claimed": self.tables_claimed,
            "images": self.images, "images_claimed": self.images_claimed, "meta": self.meta,
            "features": sorted(self.features),
        }


# ------------------------------------------------------------------------------------- oracles

def check_text(exp: Expect, full_text: str) -> list[tuple[str, str]]:
    """C02: multiset, order, gluing, leakage on get_full_text()."""
    out = []
    found = T.find(full_text)
    judged = [t for t in found if t not in exp.ignored and t not in exp.tables_only]
    counts: dict[str, int] = {}
    for t in judged:
        counts[t] = counts.get(t, 0) + 1
    inset = set(exp.seq)
    for t in exp.seq:
        if t in exp.ignored:
            continue
        c = counts.get(t, 0)
        if c == 0:
            out.append(("lost", f"token {t} ({T.CLASSES.get(t[1], '?')}) missing from full text"))
        elif c > 1:
            out.append(("duplicated", f"token {t} ({T.CLASSES.get(t[1], '?')}) appears {c}x in full text"))
    for t in counts:
        if t in exp.outs:
            out.append(("leaked", f"excluded token {t} ({T.CLASSES.get(t[1], '?')}) present in full text"))
        elif t not in inset:
            out.append(("foreign", f"token {t} is not in the source document"))
    # order: first occurrences of in-tokens must follow source order
    pos = {}
    for i, t in enumerate(judged):
        pos.setdefault(t, i)
    last, last_tok = -1, None
    for t in exp.seq:
        if t in pos and t not in exp.ignored:
            if pos[t] < last:
                out.append(("reordered", f"token {t} appears before {last_tok} although it follows it in the source"))
                break
            last, last_tok = pos[t], t
    if exp.verbatim is not None:
        norm = lambda x: x.replace("\r\n", "\n").lstrip("\ufeff").strip()
        if norm(full_text) != norm(exp.verbatim):
            a, b = norm(full_text), norm(exp.verbatim)
            i = next((k for k in range(min(len(a), len(b))) if a[k] != b[k]), min(len(a), len(b)))
            out.append(("verbatim-differs", f"text differs from the decoded source at offset {i}: got {a[i:i + 12]!r}, source {b[i:i + 12]!r}"))
    for label, n in exp.repeats.items():
        got = full_text.count(label)
        if got != n:
            out.append(("repeated-text-multiplicity", f"the label {label!r} stands in {n} separate leaves of the source and {got}x in the output"))
    if exp.literals is not None:
        # "no text that is neither in the source nor documented decoration": the source's visible text is tokens + declared literals
        rest = T.TOKEN_RE.sub(" ", full_text)
        for lit in sorted(set(exp.literals) | set(exp.decoration), key=len, reverse=True):
            if lit:
                rest = rest.replace(lit, " ")
        words = re.findall(r"\w+", rest)
        if words:
            out.append(("alien-text", f"the output holds text that is neither source text nor documented decoration: {words[:6]!r}"))
    for a, b, must in exp.between:
        ia, ib = full_text.find(a), full_text.find(b)
        if ia >= 0 and ib > ia:
            got = full_text[ia + len(a):ib].strip()
            if got != must:
                out.append(("character-wrong", f"between {a} and {b} the source has {must!r} (U+{' U+'.join('%04X' % ord(c) for c in must)}), the output has {got!r}"))
    for a, b in T.glued_pairs(full_text):
        if a in exp.ignored or b in exp.ignored:
            continue
        out.append(("glued", f"tokens {a} and {b} are separated in the source but adjacent without whitespace in the output"))
        break
    return out


def check_units(exp: Expect, units: list[dict], full_text: str) -> list[tuple[str, str]]:
    """C03: count, numbering, attribution, join equality.  units: [{text, number, heading_path, table_text}]"""
    out = []
    nums = [u.get("number") for u in units]
    if exp.unit_mode == "exact" and exp.n_units is not None and len(units) != exp.n_units:
        out.append(("unit-count", f"{len(units)} units for {exp.n_units} source units (numbers {nums})"))
    if exp.unit_mode == "one-or-sections" and len(units) < 1:
        out.append(("unit-count", "no unit at all for a flowing-text document"))
    ok_nums = all(isinstance(n, int) and not isinstance(n, bool) for n in nums)
    if not ok_nums:
        out.append(("unit-number-type", f"unit numbers are not all ints: {nums}"))
    else:
        if any(b <= a for a, b in zip(nums, nums[1:])):
            out.append(("unit-number-order", f"unit numbers not strictly increasing: {nums}"))
        if nums and nums[0] < 1:
            out.append(("unit-number-order", f"unit numbers not 1-based: {nums}"))
        want_nums = exp.expected_numbers if exp.expected_numbers is not None else list(range(1, len(nums) + 1))
        if exp.unit_mode == "exact" and exp.n_units is not None and len(units) == exp.n_units and nums != want_nums:
            out.append(("unit-number-position", f"unit numbers are not the 1-based source positions: {nums}"))
    # attribution: a token counts as *returned* by a unit when it is in the unit's text or tables; heading tokens are
    # also covered by the heading path (of their own section and, legitimately, of every descendant section)
    where: dict[str, list[int]] = {}
    in_path: set[str] = set()
    for idx, u in enumerate(units):
        blob = (u.get("text") or "") + "\n" + (u.get("table_text") or "")
        for t in set(T.find(blob)):
            where.setdefault(t, []).append(idx)
        in_path.update(T.find(" ".join(u.get("heading_path") or [])))
    claimed = list(exp.seq) + sorted(exp.tables_only)
    for t in claimed:
        if t in exp.ignored:
            continue
        w = where.get(t, [])
        if not w:
            if t in exp.heading_toks and t in in_path:
                continue
            out.append(("unit-token-lost", f"token {t} of source unit {exp.unit_of.get(t)} is in no unit"))
        elif len(w) > 1:
            out.append(("unit-token-duplicated", f"token {t} is in units {[units[i].get('number') for i in w]}"))
        elif exp.unit_mode == "exact" and exp.n_units is not None and len(units) == exp.n_units:
            if w[0] != exp.unit_of.get(t, 0):
                out.append(("unit-token-misplaced", f"token {t} of source unit {exp.unit_of.get(t, 0) + 1} is in unit position {w[0] + 1}"))
    if exp.unit_mode == "exact" and ok_nums:
        # a unit's number must be the 1-based source position of the page/slide/sheet its text comes from, even when
        # other units are missing (dropping an empty unit must not renumber the following ones)
        for idx, u in enumerate(units):
            srcs = {exp.unit_of[t] for t in set(T.find((u.get("text") or "") + " " + (u.get("table_text") or ""))) if t in exp.unit_of and t not in exp.ignored}
            if len(srcs) == 1:
                src = next(iter(srcs))
                want = exp.expected_numbers[src] if exp.expected_numbers is not None and src < len(exp.expected_numbers) else src + 1
                if nums[idx] != want:
                    out.append(("unit-number-not-source-position", f"unit numbered {nums[idx]} holds the text of source unit {want}"))
                    break
    for t, w in where.items():
        if t in exp.outs:
            out.append(("unit-leaked", f"excluded token {t} present in unit {units[w[0]].get('number')}"))
    if exp.join_equality:
        joined = "\n".join((u.get("text") or "") for u in units).strip()
        if joined != full_text:
            out.append(("join-inequality", f"get_full_text() != trimmed newline-join of unit texts (lens {len(full_text)} vs {len(joined)})"))
    return out


def _cell_tokens(v) -> list[str]:
    return T.find(v if isinstance(v, str) else ("" if v is None else str(v)))


def check_tables(exp: Expect, tables: list[dict]) -> list[tuple[str, str]]:
    """C13.  tables: [{"grid": [[json value]], "dim": [r, c]}] in iterate_tables() order."""
    out = []
    if not exp.tables_claimed:
        # nested tables: no claim on how a table inside a cell is flattened, but every table of the source is listed
        if exp.nested_tables is not None and len(tables) != len(exp.tables) + exp.nested_tables:
            out.append(("table-count", f"{len(tables)} tables returned for {len(exp.tables) + exp.nested_tables} in the source (nested tables counted one by one)"))
        return out
    if len(tables) != len(exp.tables):
        out.append(("table-count", f"{len(tables)} tables returned for {len(exp.tables)} in the source"))
        return out      # positions no longer correspond: per-table comparisons would only echo the count mismatch
    for idx, (want, got) in enumerate(zip(exp.tables, tables)):
        grid = got["grid"]
        wg = want["grid"]
        r, c = len(wg), max((len(row) for row in wg), default=0)
        gr, gc = len(grid), max((len(row) for row in grid), default=0)
        if (gr, gc) != (r, c):
            out.append(("table-shape", f"table {idx}: got {gr}x{gc}, source {r}x{c}"))
            continue
        if got.get("dim") is not None and tuple(got["dim"]) != (gr, gc):
            out.append(("table-dim", f"table {idx}: get_dim()={got['dim']} but grid is {gr}x{gc}"))
        bad = None
        for i in range(r):
            for j in range(len(wg[i])):
                wc = wg[i][j]
                gv = grid[i][j] if j < len(grid[i]) else None
                if "toks" in wc:
                    if _cell_tokens(gv) != wc["toks"]:
                        bad = (i, j, wc["toks"], gv)
                    elif isinstance(gv, str) and T.glued_pairs(gv):
                        out.append(("table-cell-glued", f"table {idx} cell ({i},{j}): pieces separated in the source are adjacent without white space: {gv!r}"))
                elif "empty" in wc:
                    if _cell_tokens(gv):
                        bad = (i, j, "empty", gv)
                elif "v" in wc:
                    if not _value_eq(wc["v"], gv):
                        bad = (i, j, wc["v"], gv)
                elif "lines" in wc:
                    # paragraphs of a cell, blank ones included: one line each, in order (trailing white space of a line is not claimed)
                    got_lines = [ln.rstrip() for ln in gv.split("\n")] if isinstance(gv, str) else None
                    if got_lines != wc["lines"]:
                        bad = (i, j, wc["lines"], gv)
                # {"any": True}: no claim on this cell
                if bad:
                    break
            if bad:
                break
        if bad:
            out.append(("table-cell", f"table {idx} cell ({bad[0]},{bad[1]}): got {bad[3]!r}, source {bad[2]!r}"))
    return out


def check_table_text(exp: Expect, tables: list[dict]) -> list[tuple[str, str]]:
    """C02 for formats that document table text as delivered through the extracted tables only: every table-only
    token occurs exactly once over all returned cells, and pieces the source separates stay separated inside a cell."""
    out = []
    if not exp.tables_only:
        return out
    counts: dict[str, int] = {}
    glued = None
    for idx, t in enumerate(tables):
        for i, row in enumerate(t["grid"]):
            for j, cell in enumerate(row):
                if not isinstance(cell, str):
                    continue
                for tok in T.find(cell):
                    counts[tok] = counts.get(tok, 0) + 1
                if glued is None and T.glued_pairs(cell):
                    glued = f"table {idx} cell ({i},{j}): pieces separated in the source are adjacent without white space: {cell!r}"
    for tok in sorted(exp.tables_only):
        n = counts.get(tok, 0)
        if n == 0:
            out.append(("table-text-lost", f"token {tok} ({T.CLASSES.get(tok[1], "?")}) is in no extracted table (and table text is not part of the full text of this format)"))
            break
        if n > 1:
            out.append(("table-text-duplicated", f"token {tok} ({T.CLASSES.get(tok[1], "?")}) appears {n}x in the extracted tables, once in the source"))
            break
    if glued:
        out.append(("table-text-glued", glued))
    return out


def _value_eq(want, got) -> bool:
    if isinstance(want, bool) or isinstance(got, bool):
        return isinstance(want, bool) and isinstance(got, bool) and want == got
    if isinstance(want, (int, float)) and isinstance(got, (int, float)):
        return float(want) == float(got)
    return want == got


def check_images(exp: Expect, images: list[dict], units: list[dict] | None = None) -> list[tuple[str, str]]:
    """C14.  images: [{"sha","ctype","w","h","number","unit"}] in iterate_images() order; units carry their own image lists."""
    out = []
    if not exp.images_claimed:
        return out
    if units is not None:
        doc_shas = [i.get("sha") for i in images]
        for u in units:
            for ui in u.get("images", []):
                if ui.get("sha") not in doc_shas:
                    out.append(("unit-image-not-in-document-iterator", f"unit {u.get('number')} holds an image that iterate_images() does not return"))
        placed = [i for i in exp.images if i.get("unit") is not None]
        if placed and exp.unit_mode == "exact" and exp.n_units is not None and len(units) == exp.n_units:
            for want in placed:
                holders = [idx + 1 for idx, u in enumerate(units) if any(ui.get("sha") == want["sha"] for ui in u.get("images", []))]
                wanted = sorted({i["unit"] for i in exp.images if i["sha"] == want["sha"] and i.get("unit") is not None})
                if holders != wanted:
                    out.append(("image-unit", f"image placed on unit(s) {wanted} is attached to unit(s) {holders}"))
                    break
            union = sum(len(u.get("images", [])) for u in units)
            if union != len(images):
                out.append(("unit-view-differs", f"units hold {union} images, document iterator returns {len(images)}"))
    ws = [i["sha"] for i in exp.images]
    gs = [i["sha"] for i in images]
    if sorted(ws) != sorted(gs):
        extra = [s for s in gs if s not in ws]
        missing = [s for s in ws if s not in gs]
        if extra:
            out.append(("image-invented", f"{len(extra)} returned image(s) whose bytes are not those of any placed image"))
        if missing:
            out.append(("image-lost", f"{len(missing)} placed image(s) not returned bit-exact ({len(gs)} returned, {len(ws)} placed)"))
        if not extra and not missing:
            out.append(("image-multiplicity", f"returned {len(gs)} images for {len(ws)} placements"))
        return out
    if ws != gs:
        out.append(("image-order", "images are not returned in document order"))
        return out
    nums = [i.get("number") for i in images]
    if not all(isinstance(n, int) and not isinstance(n, bool) and n >= 1 for n in nums):
        out.append(("image-number-type", f"image numbers are not positive ints: {nums}"))
    elif nums != list(range(1, len(nums) + 1)):
        out.append(("image-number-sequence", f"image numbers are not the running sequence 1..n in document order: {nums}"))
    for want, got in zip(exp.images, images):
        if want["ctype"] is not None and got.get("ctype") != want["ctype"]:      # (None: the part name says nothing about the type - unclaimed)
            out.append(("image-content-type", f"content type {got.get('ctype')!r} for a {want['ctype']} file"))
            break
        if want.get("w") is not None and (got.get("w"), got.get("h")) != (want["w"], want["h"]):
            out.append(("image-size", f"reported size {(got.get('w'), got.get('h'))} for a {want['w']}x{want['h']} {want['ctype']}"))
            break
        if want.get("unit") is not None and got.get("unit") is not None and got.get("unit") != want["unit"]:
            out.append(("image-unit-number", f"image placed on unit {want['unit']} reports unit_number {got.get('unit')}"))
            break
    return out
