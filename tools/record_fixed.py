#!/usr/bin/env python3
"""tools/record_fixed.py <commit> <key> [<key> ...] -- mark findings fixed (adds the entry when it was never listed as open)."""
import json, sys
p = '/verif/known_findings.json'
k = json.load(open(p))
sha = sys.argv[1]
by = {f['key']: f for f in k['findings']}
for key in sys.argv[2:]:
    what = None
    if '=' in key:
        key, what = key.split('=', 1)
    f = by.get(key)
    if f is None:
        f = {"property": key.split(':')[0], "key": key, "what": what or key, "witness": {}}
        k['findings'].append(f)
    f['status'] = 'fixed'
    f['commit'] = sha
    base = (what or f['what'])
    if not base.startswith('fixed:'):
        base = f"fixed: property={f['property']} {sha} {base}"
    f['what'] = base
k['findings'].sort(key=lambda f: (f['property'], f['key']))
json.dump(k, open(p, 'w'), indent=1, ensure_ascii=False); open(p, 'a').write('\n')
