#!/usr/bin/env python3
"""Rewrite the table of DESIGN.md section 17 from seeded/*/meta.json (run after tools/seed_all.py)."""
import glob
import json
import os
import re

HERE = os.path.dirname(os.path.dirname(os.path.abspath(__file__)))
BEGIN, END = "<!-- seeded-table:begin -->", "<!-- seeded-table:end -->"
ROUND = {"a": 1, "b": 1, "c": 2, "d": 2, "e": 3, "f": 3, "g": 4, "h": 4, "i": 5, "j": 5, "k": 6, "l": 6, "m": 7, "n": 7, "o": 8, "p": 8, "q": 9, "r": 9, "s": 10, "t": 10}


def main():
    rows = []
    stats = {}
    for d in sorted(glob.glob(f"{HERE}/seeded/C*")):
        m = json.load(open(f"{d}/meta.json"))
        sid = m["id"]
        notes = open(f"{d}/NOTES.md").read() if os.path.exists(f"{d}/NOTES.md") else ""
        letter = "A" if sid[-1] in "acegikmoqs" else "B"
        t = re.search(rf"(?m)^## Change {letter}\s*[—:-]+\s*(.*)$", notes)
        title = re.sub(r"`[ab]\.diff`\s*[:—-]*\s*", "", (t.group(1) if t else "")).replace("|", "/").strip(" :—-")[:150]
        caught = ", ".join(m.get("caught_by") or []) or "**not caught**"
        if not m.get("caught_by") and m.get("disputed"):
            caught = "not claimed: not a violation under every admissible reading of the property (see meta.json: disputed)"
        if not m.get("caught_by") and m.get("still_breaks_property") is False:
            caught = "n/a: neutralised by a later repository fix (its demonstration passes with the patch applied)"
        hist = (m.get("history") or "").replace("|", "/")
        r = ROUND.get(sid[-1], 0)
        s = stats.setdefault(r, [0, 0, 0, 0])
        s[0] += 1
        if m.get("caught_by"):
            s[1] += 1
        elif m.get("disputed"):
            s[3] += 1
        elif m.get("still_breaks_property") is False:
            s[2] += 1
        shown = hist if (r == 1 or hist.startswith("missed at first") or hist.startswith("not reported") or hist.startswith("missed by")) else ""
        rows.append(f"| {sid} | {r} | {title} | {caught} | {shown} |")
    head = "| change | round | what it does (author's title) | caught by (quick tier, current checks) | strengthening it took (where recorded per change) |\n|---|---|---|---|---|\n"
    summary = "; ".join(f"round {r}: {c} of {n} caught" + (f", {z} neutralised by a later repair" if z else "") + (f", {d} disputed" if d else "") for r, (n, c, z, d) in sorted(stats.items()))
    block = f"{BEGIN}\n\nCurrent state ({summary}):\n\n{head}" + "\n".join(rows) + f"\n\n{END}"
    p = f"{HERE}/DESIGN.md"
    s = open(p).read()
    if BEGIN in s:
        s = s[:s.index(BEGIN)] + block + s[s.index(END) + len(END):]
    else:
        # first use: replace the old hand-made table of section 17
        a = s.index("| change | what it does | caught by (quick tier) | strengthening it took |")
        b = s.index("\n\n", s.index("| C20b |", a))
        s = s[:a] + block + s[b:]
    open(p, "w").write(s)
    print(summary)


if __name__ == "__main__":
    main()
