#!/bin/bash
# tools/sweep_quick.sh <tier> <seed-from> <seed-to> [checks...]: run checks for several seeds, print one status line each + any VIOLATION/INCONCLUSIVE
tier=$1; a=$2; b=$3; shift 3
checks=${@:-$(python3 -c "import json; print(' '.join(c['property_id'] for c in json.load(open('MANIFEST.json'))['checks']))")}
for s in $(seq $a $b); do
  for p in $checks; do
    out=$(VERIF_SEED=$s ./check $p --tier $tier 2>&1)
    echo "$out" | grep -E "^(C[0-9]+ tier|VIOLATION|INCONCLUSIVE|violation key)" | cut -c1-400 | sed "s/^/[seed $s] /"
  done
done
