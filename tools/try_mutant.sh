#!/bin/bash
# tools/try_mutant.sh <patch.diff> <demo.py|-> <tier> <check> [<check>...]
# Applies the patch to a scratch worktree of /repo HEAD, runs the demo (must FAIL there, PASS on /repo), the repository's tests and the given checks against it.
set -u
patch=$1; demo=$2; tier=$3; shift 3
wt=$(mktemp -d /tmp/tm-XXXXXX); rmdir $wt
git -C /repo worktree add -q $wt HEAD || exit 3
trap 'git -C /repo worktree remove --force '$wt' >/dev/null 2>&1; rm -rf /tmp/tm-scratch-$$' EXIT
if ! git -C $wt apply $patch; then echo "PATCH DOES NOT APPLY"; exit 3; fi
if [ "$demo" != "-" ]; then
  (cd /tmp && PYTHONPATH=/repo /venv/bin/python $demo /repo >/dev/null 2>&1); echo "demo on /repo: exit $?"
  (cd /tmp && PYTHONPATH=$wt /venv/bin/python $demo $wt >/dev/null 2>&1); echo "demo on mutant: exit $?"
fi
(cd $wt && PYTHONPATH=$wt /venv/bin/python -m pytest -q -p no:cacheprovider sharepoint2text/tests 2>&1 | tail -1)
cd /verif
for c in "$@"; do
  VERIF_REPO=$wt VERIF_EVIDENCE_DIR=/tmp/tm-scratch-$$/evidence VERIF_REPLAY_DIR=/tmp/tm-scratch-$$/replays ./check $c --tier $tier 2>&1 | grep -E "^(violation key|C[0-9]+ tier|INCONCLUSIVE)" | cut -c1-330
done
