import sys, json, collections
sys.path.insert(0,'/verif')
from vlib import core; core.setup_paths()
from vlib import docwork
fmt=sys.argv[1]; n=int(sys.argv[2]); feat=sys.argv[3] if len(sys.argv)>3 else None
from vlib.gen import docs
agg=collections.Counter()
feats=[None]+list(docs.BUILDERS[fmt][1]) if feat=='all' else [feat]
for f in feats:
  for tw in ([False,True] if f else [False]):
    for seed in range(n):
        o=docwork.run_doc(fmt,seed,f,tw)
        if o['exc']: agg[(f,tw,'EXC',o['exc']['name'],o['exc']['msg'][:80])]+=1; continue
        if o.get('errors'): agg[(f,tw,'ERR',str(o['errors'])[:100])]+=1
        for c in ('c02','c03','c13','c14'):
            for sym,det in o.get(c,[]):
                agg[(f,tw,c,sym)]+=1
                if agg[(f,tw,c,sym)]==1: print(f,tw,seed,c,sym,det)
for k,v in sorted(agg.items(), key=str): print(v,k)
