#!/usr/bin/env python3
"""Turn the violation replays of the last run of a doc-model check into proposed open findings (reviewed by hand before commit).

usage: tools/propose_findings.py C02 [--write]
"""
import json, sys, glob, os
HERE = os.path.dirname(os.path.dirname(os.path.abspath(__file__)))
sys.path.insert(0, HERE)
pid = sys.argv[1]
write = "--write" in sys.argv
kf = json.load(open(f"{HERE}/known_findings.json"))
have = {f["key"] for f in kf["findings"]}
feat_desc = {}
try:
    sys.path.insert(0, "/repo")
    from vlib.gen import docs
    for fmt, spec in docs.BUILDERS.items():
        for k, v in spec[1].items():
            feat_desc[(fmt, k)] = v
except Exception as e:
    print("no docs registry:", e)
new = []
for p in sorted(glob.glob(f"{HERE}/replays/{pid}/*.json")):
    d = json.load(open(p))
    if d.get("known") or d["key"] in have:
        continue
    parts = d["key"].split(":")
    fmt, feat, sym = parts[1], parts[2], parts[3]
    if feat == "clean" or feat.endswith("#twin"):
        print("NOT PROPOSABLE (clean/twin):", d["key"], d["what"][:200])
        continue
    what = f"{fmt}: {feat_desc.get((fmt, feat), feat)} -> {sym}: {d['what'].split('): ', 1)[-1]}"
    new.append({"property": pid, "key": d["key"], "status": "open", "what": what[:300], "witness": d["case"]})
    print("PROPOSE", d["key"], "|", what[:200])
if write:
    kf["findings"] += new
    kf["findings"].sort(key=lambda f: (f["property"], f["key"]))
    json.dump(kf, open(f"{HERE}/known_findings.json", "w"), indent=1, ensure_ascii=False)
    open(f"{HERE}/known_findings.json", "a").write("\n")
    print("written", len(new))
