#!/usr/bin/env python3
"""Evaluate every seeded change under /tmp/mutants (or already stored under /verif/seeded) against the current checks and
(re)write /verif/seeded/<id>/{patch.diff,demo.py,meta.json}.

usage: tools/seed_all.py [--from-tmp] [ids...]
"""
import json
import os
import re
import shutil
import subprocess
import sys

VERIF = os.path.dirname(os.path.dirname(os.path.abspath(__file__)))
EXTRA = {  # other checks worth running for a change seeded against a property
    "C02a": ["C13"], "C02c": ["C17"], "C02f": ["C16"], "C01f": ["C16"], "C08f": ["C16"], "C03c": ["C16"], "C06d": ["C15"], "C05a": ["C06"], "C06b": ["C15"], "C15b": ["C09"], "C09b": ["C15"], "C20k": ["C15"], "C12m": ["C01"], "C01n": ["C15"], "C05p": ["C06"], "C12p": ["C01"], "C13q": ["C02"], "C14q": ["C03"], "C02r": ["C10"],
}
HISTORY = {  # what had to be strengthened before the change was caught (filled from the campaign log)
    "C01a": "missed at first: no input held the same picture twice -> added stamp_twice / copy_block mutations",
    "C01b": "missed at first: xlrd writes to the stdout bound at import time -> CLI runs now capture file descriptor 1 as well as sys.stdout; added append_junk mutation",
    "C02a": "missed at first: EPUB cells had one block only and gluing inside table cells was not judged -> multi-block EPUB cells, table-cell glue oracle",
    "C02b": "missed at first: the ODP writer always set presentation:class on notes frames -> now optional",
    "C03a": "missed at first: PPTX slide parts were always slide{k}.xml at position k -> part names now arbitrary",
    "C04a": "missed at first: folder_path accepted as given or resolved -> exact documented rule; added symlink and missing-file-in-existing-directory paths",
    "C04b": "missed at first: generated PDFs had no /Alt entries -> images now carry text/bytes/array/name/number alternate-text entries",
    "C05a": "not reported by C05 (its round trip does not interleave observers by design); caught by C06's observer words",
    "C05b": "missed at first: no multi-result input with image-bearing units reached the CLI comparison -> generated archives in the corpus",
    "C06b": "missed at first: workers pre-imported every extractor module, hiding import-time side effects; C15 no longer pre-imports and its pool holds HTML in unusual declared charsets",
    "C08a": "missed at first: the ZIP flag was only ever put on supported members -> encrypted hidden / unsupported / nested-archive members",
    "C10a": "missed at first: member names were Latin-1 only -> names mixing Latin-1, U+xx00 code units, astral and combining characters (which also exposed the non-BMP name defect fixed in the repository); patch rebased onto that fix",
    "C10b": "missed at first: too few corrupt-member archives in the quick tier, corruptions often harmless -> every second archive corrupts a member, incl. bytes its extractor is certain to reject",
    "C11a": "missed at first: the reference admitted 'empty entries do not count in the total ratio' as a reading -> the natural reading is now demanded",
    "C12a": "missed at first: no link members in the limit probes -> tar hard link to an oversize member",
    "C12b": "missed at first: no repeat attributes on ODT/ODP text-table cells among the amplifier families -> added (plus colspan / gridSpan families)",
    "C13a": "caught once by luck at first -> zero-valued cells and all-zero totals rows are now regular content",
    "C13b": "missed at first: numbers were never written in exponent notation -> xsd:double spellings in ODS/XLSX cells",
    "C14a": "missed at first: PDF images always used a single /Filter name -> filter arrays ([/DCTDecode], [/ASCIIHexDecode /DCTDecode], [/FlateDecode /DCTDecode])",
    "C14b": "missed at first: no worksheet had comments -> comments part + vmlDrawing relationship in either order",
    "C15b": "missed by C15 at first (no damaged archives in its histories) -> damaged inputs of every kind; also caught by C09",
    "C16b": "missed at first: attachments never carried a Content-ID -> 30 % now do",
    "C01i": "missed at first: no mutation produced a half-written embedded picture inside intact record headers -> picture_half_written (signature + first segment intact, rest filler up to the end marker)",
    "C01j": "missed at first: the CLI was only run against an unlimited stdout and no multi-result input had a plain first and an unencodable later result -> cli-narrow mode (ASCII stdout) + ASCII-then-non-ASCII archives and mailboxes",
    "C02i": "missed at first: RTF text never held a \\uN\\'hh escape directly followed by \\'hh characters -> words of non-ASCII letters in every mixture of \\'hh, \\uN? and \\uN\\'hh, adjacent, with an exact between-tokens claim",
    "C03i": "missed at first: every PDF page had its own content stream -> feature shared-content-stream (one stream, per-page form XObjects; twin: one stream per page)",
    "C03j": "missed at first: mailbox messages were text/plain only -> HTML-only and multipart/alternative messages whose plain twin is blank (space, NBSP, tab, empty)",
    "C04j": "missed at first: the cp1252 property strings were never well-formed UTF-8 by accident -> payloads such as 'NESCAFÉ® 2024', 'CAFÉ™', 'SÃ©rie'",
    "C05i": "missed at first: zero-length bytes payloads were rare and only to_json() of the rebuilt object was compared, which re-emits an undecoded marker dict unchanged -> binary fields compared as objects (kind + bytes), zero-length payloads frequent",
    "C05j": "missed at first: no string exercised a constructor normalisation twice -> marker vocabulary holds padded / NUL-terminated / NBSP strings (from_json runs the constructor a second time)",
    "C08i": "missed at first: the converse clause was only tested with each plain file on its own reader -> wrong-container look-alikes (OLE2 under OOXML/ODF names, ZIP under legacy names, PDF/RTF under Office names): must not be rejected *as encrypted*",
    "C08j": "missed at first: the FIB flag was only set under the Word 97 signature -> also under the Word 6.0/95 signature the reader accepts",
    "C13i": "missed at first: RTF rows always ended in a line end -> blank, CRLF or nothing at all between \\row and the next \\trowd",
    "C13j": "missed at first: every workbook used the 1900 date system -> DATEMODE 1 as a feature (and on a fifth of the clean workbooks), dates claimed in the workbook's own system",
    "C14i": "missed at first: every image XObject was drawn on one page only -> feature shared-image-xobject (one object on every page; twin: equal bytes in separate objects)",
    "C14j": "missed at first: every picture relationship had its media part -> feature missing-media-part (dangling relationship in the middle; twin: at the end)",
    "C01k": "missed at first: no container pointed at itself -> 7z end headers that are 'encoded headers' describing themselves (one- and two-step cycles, all checksums right)",
    "C02k": "missed at first: comments held plain paragraphs only -> office:annotation bodies with bulleted lists (ODT, ODP, ODS), before or after the cell paragraph",
    "C02l": "missed at first: a PPT slide had at most one title-typed text -> a second title / centre-title typed block after the bodies on 15 % of the slides",
    "C04k": "missed at first: streams were opened and read one image at a time -> every image's stream is opened first and read afterwards (document and unit view), stream objects must not be shared; ODP feature shared-picture",
    "C04l": "missed at first: archive members' folder / path were not judged -> must lie below '<archive path>!'; archives with absolute member names",
    "C05k": "missed at first: the CLI's stdout was a StringIO, which accepts lone surrogates -> a strict UTF-8 text stream; TAR with Latin-1 member names (surrogateescape in the file metadata)",
    "C08l": "missed at first: every generated PDF was below 10 KiB -> feature large-image (20-120 KB pictures) in a third of the encrypted PDFs",
    "C13k": "missed at first: ODP cell paragraphs were direct children of the cell -> bulleted cells (text:list) and paragraph-plus-bullet cells",
    "C13l": "missed at first: no slide table had merged cells -> feature merged-cells (gridSpan/hMerge, rowSpan/vMerge; twin without the attributes)",
    "C14k": "missed at first: picture part names always had lower-case extensions -> upper- and title-case extensions in ODF packages",
    "C14l": "missed at first: every generated JPEG had the same five segments and every XLSX picture an extent -> six segment layouts (payloads ending in 0xFF, clamped tables, progressive, restart interval, ICC/Exif) and two-cell anchors without extent (which also exposed the anchor-order defect fixed in the repository)",
    "C20k": "missed by C20 at first (single-threaded; caught by C15's AES stress group) -> C20 now runs four concurrent callers against pre-computed reference answers",
    "C01m": "missed at first: no equation was nested deeper than a few levels -> a document with five equations nested 48 structures deep (delimiters, fractions, radicals, scripts, functions)",
    "C01n": "missed at first: a worker that slept until the deadline was 'inconclusive' (only CPU time was a verdict) and no archive held bare .gz/.bz2/.xz members -> blocked-forever verdict (process asleep, no CPU, at the deadline; location from the watchdog's stack dump); archive with compressed-stream members",
    "C03m": "missed at first: form-XObject pages still named the font in the page resources -> pages whose text and font live only in the form (a fifth of the clean picture-free pages, and the shared-content-stream feature)",
    "C03n": "missed at first: accessors were only called with their defaults, once -> every boolean option of get_full_text / iterate_units (found by introspection) in the sequences default-set-default and set-default-set on one object: join equality per option value, same value same text; PPTX pictures carry alt text so that the option matters",
    "C13m": "missed at first: empty XHTML cells were always <td></td> -> the short forms <td/> and <td /> an XML serialiser writes",
    "C13n": "missed at first: no time-of-day cells -> cells with number format h:mm:ss and a serial in [0,1), claimed as HH:MM:SS",
    "C14m": "missed at first: text never ended in an escaped backslash right before \\page -> a quarter of the page breaks follow 'C:\\temp\\' directly",
    "C14n": "missed at first: ODF frames were always 2cm x 2cm and their pixel size unclaimed -> sizes in cm, in, mm, pt and pc (quarter inches, exact in every unit), claimed at 96 dpi",
    "C01o": "missed at first: references between parts never left the container -> EPUBs whose manifest hrefs climb above the root (one, two, three levels), are absolute, or walk through dot segments; mutation xml_href_climb for every ZIP format (which also exposed that dot-segment hrefs were not resolved at all: fixed in the repository)",
    "C01p": "missed at first: a diagnostic that spans two lines was still 'one diagnostic' (only lines starting with the program name were counted) and no member name held a line break -> the diagnostic is the program-name line plus whatever follows it; mutations member_names_ctrl and bomb_member_named",
    "C02o": "missed at first: no .eml documents in the document family -> eml builder: one part, several inline text/plain parts in every transfer encoding (base64 / quoted-printable parts without a final line break), alternative",
    "C03o": "missed at first: every mailbox message had its own Message-ID -> a fifth without any, a tenth repeating the previous one",
    "C04o": "missed at first: generated HTML was UTF-8 with one declaration form, and each feature was drawn with one seed only -> feature legacy-charset-declared (eight legal meta forms, four charsets, non-ASCII properties) and 3-11 extra seeds per feature for the property comparison",
    "C04p": "missed at first: every ODF picture name had a known image extension -> an eighth of the pictures stored as 'ObjectReplacements/Object N', '.met' or without extension (type unclaimed, the str contract of get_content_type() applies)",
    "C05o": "missed at first: the path argument was always a str naming an existing file -> str / pathlib.Path / PurePosixPath, existing and non-existing, URL-like, None",
    "C05p": "not reported by C05 (its comparisons are taken back-to-back by design); caught by C06's observer oracles (to_json changed by get_full_text)",
    "C08p": "missed at first: no manifest had a DOCTYPE line -> plain and encrypted DOCTYPE manifests, with a marker word in a member path",
    "C13o": "missed at first: merges covered one cell -> feature wide-merge (3-4 columns, covered cells as one repeated element, a value to the right)",
    "C13p": "missed at first: nested tables sat directly in the cell -> feature nested-table-in-sdt (w:tc/w:sdt/w:sdtContent/w:tbl, a table after it; count of tables claimed)",
    "C14o": "missed at first: no ODS placed one picture part twice -> feature shared-picture (a logo on every sheet next to a picture of the sheet's own)",
    "C01q": "missed at first: mail results were not consumed down to their attachments in direct mode, and no .msg attachment carried its MIME tag in another letter case under a name without extension -> attachments walked; the repository's message relabelled by same-length replacements",
    "C01r": "missed at first: cross-format inputs were unmutated only -> OLE2 containers cut short / overwritten handed to the OOXML and ODF extractors (and ZIP containers to the legacy ones)",
    "C02q": "missed at first: every text leaf was a unique token, so 'same multiplicity' could not be probed for repeated texts -> Expect.repeats: a label that stands in 2-3 separate leaves (ODG shapes) must occur as often in the output",
    "C02r": "not reported by C02 (archives are not in its document family); caught by C10 (members under ./ names)",
    "C03r": "missed at first: no running text stood directly before and after an <hr> in one parent -> such blocks in a tenth of the HTML-family bodies",
    "C04r": "missed at first: every page wrote its <head> tags -> feature no-head-tags (twin: with the tags)",
    "C05q": "missed at first: streams of the rebuilt object were inspected with getvalue() and the JSON was restored once -> no two binary fields may be one stream object; after a consumer has read and closed the first rebuilt object's streams a second from_json of the same JSON must hand out fresh ones",
    "C05r": "missed at first: only to_json() of the rebuilt object was compared, which re-emits a nested object left as a plain dict unchanged -> nested dataclass instances are compared by class, path by path",
    "C08q": "missed at first: every ZIP member name was ASCII (flag word 0) -> plain archives with non-ASCII member names (general-purpose bit 11) must extract like their ASCII twins",
    "C08r": "missed at first: every stream handed to an extractor stood at position 0 -> direct calls with a buffer that was filled and not rewound, and with one the caller sniffed 8 bytes from",
    "C13q": "not reported by C13 (cells of the nested-table features are unclaimed there); caught by C02's table-text coverage once the enclosing cell goes on after the nested table",
    "C13r": "missed at first: every row inside the used range had at least one cell record -> feature empty-row-inside",
    "C14q": "not reported by C14 (the unit view is only compared when the unit count is right); caught by C03 (unit count, image-only last page)",
    "C14r": "missed at first: drawing parts were numbered like their sheets -> reversed, shifted (drawing10 before drawing2) and shuffled part numbers on half of the workbooks",
    "C10s": "missed at first: the 7z writer declared the dictionary it compressed with (small) -> LZMA1 folders, the LZMA2 property byte and LZMA-compressed headers declare 4 KiB ... 128 MiB in the coder properties (every third 7z case), control twin with the dictionary really used",
    "C17s": "missed at first: every generated body ended in a closing tag or a line break -> fragments that end in bare text with a literal ampersand followed by letters (R&D, AT&T ...) behind every removed construct, the reference being the same fragment without the construct; clause text-altered for the last words",
    "C12s": "missed at first: no footnote family among the amplifier probes -> RTF footnote with a growing plain run in front of a three-deep group nest, and the unterminated footnote",
    "C12t": "missed at first: member names in the limit probes were unique -> ZIP that lists one name twice (small first / oversize last and the reverse), both central-directory entries written raw",
    "C15s": "missed at first: no history put an encrypted PDF in front of a plain PDF of 10 MiB or more with pictures -> history encrypted-then-large-pdf",
    "C18t": "missed at first: the simulator stamped folders from their content -> folders carry their own lastModifiedDateTime (older, newer, absent), folder_paths combined with modified_after in the filtered and since listings",
    "C20q": "missed at first: IVs were random -> the all-zero IV (pypdf's key unwrap), all-ones and single-bit IVs in 15 % of the CBC calls",
}
# a change that is not a violation under every admissible reading of the property text: the check admits both readings, by design
DISPUTED = {
    "C11m": "the entry-count clause counts only non-directory records: the statement says 'rejected exactly when the entry count ... exceeds its limit' and also 'Directory entries are "
            "ignored'. Read literally the second sentence covers the count as well, so the changed tree conforms under one reading and the unchanged tree under the other; neither the README nor "
            "the ZipBombLimits docstring settles it. The reference predicate of C11 admits both counts where they differ (951 vectors per quick run are of that kind), because demanding the "
            "unchanged tree's count would demand more than the property states.",
}
# changes the quick tier missed when they arrived (rounds 4 to 9, from the campaign logs); what was widened is in DESIGN §19-§20
MISSED_ON_ARRIVAL = set("""C01g C01h C02h C03g C04g C04h C05g C05h C08g C08h C09g C09h C10h C11g C12g C12h C13h C14g C14h C16g C16h C19g C07h C15g
C01i C01j C02i C03i C03j C04j C05i C05j C06i C06j C07j C08i C08j C09j C10i C10j C11i C12i C12j C13i C13j C14i C14j C15i C16j C17j C19j
C01k C02k C02l C04k C04l C05k C08l C13k C13l C06l C07k C09l C10l C12k C12l C14k C14l C15k C15l C16k C16l C17k C20k
C01m C01n C03m C03n C13m C13n C14m C14n C06n C07n C09n C10n C11m C11n C16m C16n C17m C12m C12n C15m C15n C19m
C01o C01p C02o C03o C04o C04p C05o C05p C08p C13o C13p C14o
C06o C06p C07o C09p C10o C10p C11o C12o C12p C15o C15p C16p C18o
C01q C01r C02q C02r C03r C04r C05q C05r C08q C08r C13q C13r C14q C14r C20q
C10s C12s C12t C15s C17s C18t""".split())


def history_for(sid):
    if sid in HISTORY:
        return HISTORY[sid]
    if sid in MISSED_ON_ARRIVAL:
        return "missed by the quick tier as it stood when the change arrived; caught after the widening described in DESIGN §19-§20"
    if sid[-1] in "cdef":
        return "rounds 2-3 (13 of 40 and about a third caught on arrival; the campaign log does not keep the per-change first result): see DESIGN §19 for what was widened"
    return "caught by the quick tier as it stood when the change arrived"


def sh(cmd, **kw):
    return subprocess.run(cmd, shell=True, capture_output=True, text=True, errors="replace", **kw)


def main():
    ids = [a for a in sys.argv[1:] if not a.startswith("--")]
    from_tmp = "--from-tmp" in sys.argv and "--from-tmp2" not in sys.argv
    head = sh("git -C /repo rev-parse --short HEAD").stdout.strip()
    todo = []
    if from_tmp:
        for pid in sorted(os.listdir("/tmp/mutants")):
            d = f"/tmp/mutants/{pid}"
            if not os.path.isdir(d):
                continue
            for x in "ab":
                patch = f"{d}/{x}.rebased.diff" if os.path.exists(f"{d}/{x}.rebased.diff") else f"{d}/{x}.diff"
                if os.path.exists(patch):
                    todo.append((pid + x, pid, patch, f"{d}/demo_{x}.py", f"{d}/NOTES.md"))
    elif any(a in sys.argv for a in ("--from-tmp2", "--from-tmp3", "--from-tmp4", "--from-tmp5", "--from-tmp6", "--from-tmp7", "--from-tmp8", "--from-tmp9", "--from-tmp10")):
        # later rounds: /tmp/mutants2/<pid>/{a,b}.diff are stored as <pid>c / <pid>d, /tmp/mutants3/... as e / f, /tmp/mutants4/... as g / h
        rdir, letters = next((d, l) for a, d, l in (("--from-tmp2", "/tmp/mutants2", "cd"), ("--from-tmp3", "/tmp/mutants3", "ef"), ("--from-tmp4", "/tmp/mutants4", "gh"), ("--from-tmp5", "/tmp/mutants5", "ij"), ("--from-tmp6", "/tmp/mutants6", "kl"), ("--from-tmp7", "/tmp/mutants7", "mn"), ("--from-tmp8", "/tmp/mutants8", "op"), ("--from-tmp9", "/tmp/mutants9", "qr"), ("--from-tmp10", "/tmp/mutants10", "st")) if a in sys.argv)
        for pid in sorted(os.listdir(rdir)):
            d = f"{rdir}/{pid}"
            if not os.path.isdir(d):
                continue
            for x, y in (("a", letters[0]), ("b", letters[1])):
                patch = f"{d}/{x}.rebased.diff" if os.path.exists(f"{d}/{x}.rebased.diff") else f"{d}/{x}.diff"
                if os.path.exists(patch) and os.path.exists(f"{d}/demo_{x}.py"):
                    todo.append((pid + y, pid, patch, f"{d}/demo_{x}.py", f"{d}/NOTES.md"))
    else:
        for sid in sorted(os.listdir(f"{VERIF}/seeded")):
            d = f"{VERIF}/seeded/{sid}"
            if os.path.exists(f"{d}/patch.diff"):
                todo.append((sid, sid[:3], f"{d}/patch.diff", f"{d}/demo.py", f"{d}/NOTES.md"))
    for sid, pid, patch, demo, notes in todo:
        if ids and sid not in ids and pid not in ids:
            continue
        checks = [pid] + EXTRA.get(sid, [])
        r = sh(f"cd {VERIF} && tools/try_mutant.sh {patch} {demo} quick {' '.join(checks)}")
        out = r.stdout + r.stderr
        keys = re.findall(r"^violation key=(\S+)", out, re.M)
        status = re.findall(r"^(C\d+) tier=quick .* status=(\w+)", out, re.M)
        demo_repo = re.search(r"demo on /repo: exit (\d+)", out)
        demo_mut = re.search(r"demo on mutant: exit (\d+)", out)
        tests = re.search(r"=+ (.*passed.*) =+", out)
        dst = f"{VERIF}/seeded/{sid}"
        os.makedirs(dst, exist_ok=True)
        if os.path.abspath(patch) != os.path.abspath(f"{dst}/patch.diff"):
            shutil.copy(patch, f"{dst}/patch.diff")
            shutil.copy(demo, f"{dst}/demo.py")
            if os.path.exists(notes):
                shutil.copy(notes, f"{dst}/NOTES.md")
        needs = ""
        if os.path.exists(f"{dst}/NOTES.md"):
            txt = open(f"{dst}/NOTES.md").read()
            letter = "A" if sid[-1] in "acegikmoqs" else "B"
            m = re.search(rf"(?ms)^## Change {letter}\b(.*?)(?=^## |\Z)", txt)
            section = (m.group(0) if m else txt).strip()
            paras = [p.strip() for p in re.split(r"\n\s*\n", section)]
            title = paras[0].lstrip("# ").strip() if paras else ""
            wanted = [p for p in paras[1:] if re.search(r"(?i)manifest|needed|needs|trigger", p[:160])]
            needs = (title + "\n\n" + "\n\n".join(wanted or paras[1:3])).strip()[:2500]
        caught = [c for c, st in status if st == "violated"]
        meta = {
            "id": sid, "property": pid, "patch": "patch.diff", "demonstration": "demo.py (argv[1] = repository root; exit 0 = property holds on the case, exit 1 = violated)",
            "base_commit": head, "breaks": f"property {pid}", "needs_to_manifest": needs,
            "confirmed": {"demo_on_unchanged_tree_exit": int(demo_repo.group(1)) if demo_repo else None, "demo_with_patch_exit": int(demo_mut.group(1)) if demo_mut else None,
                          "repository_tests_with_patch": tests.group(1) if tests else None},
            "ran": f"tools/try_mutant.sh seeded/{sid}/patch.diff seeded/{sid}/demo.py quick {' '.join(checks)}  (scratch worktree of /repo HEAD {head}, VERIF_REPO redirect)",
            "caught_by": caught, "check_status": dict(status), "violation_keys": keys[:8],
            "history": history_for(sid),
        }
        if demo_mut and demo_mut.group(1) == "0" and demo_repo and demo_repo.group(1) == "0":
            # the demonstration passes with the patch applied to the current HEAD: a later repair of the repository made the change harmless
            meta["still_breaks_property"] = False
            meta["history"] += " | NEUTRALISED: a later fix: commit of the repository removed the mechanism the change relied on; its demonstration now passes with the patch applied, so there is nothing left to catch"
        else:
            meta["still_breaks_property"] = True
        if sid in DISPUTED:
            meta["disputed"] = DISPUTED[sid]
        json.dump(meta, open(f"{dst}/meta.json", "w"), indent=1)
        print(sid, "caught by", caught or ("NOBODY" if meta["still_breaks_property"] else "n/a (neutralised)"), "| demo", meta["confirmed"]["demo_on_unchanged_tree_exit"], meta["confirmed"]["demo_with_patch_exit"], "| tests", meta["confirmed"]["repository_tests_with_patch"], flush=True)


if __name__ == "__main__":
    main()
