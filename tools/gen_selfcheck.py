#!/venv/bin/python
"""Self-check of the ground-truth generators (no repository code involved).

For every renderer / feature / twin / seed: every token the renderer *recorded* (body, excluded,
table-only, ignored) must literally occur in the bytes it *wrote* (after inflating ZIP members and
looking through ASCII, UTF-16LE, RTF and quoted-printable spellings), exactly as often as it was
recorded, and the written bytes must hold no token that was never recorded.  A renderer that records
a token and then throws the markup away (or writes one it never recorded) makes an oracle report
"lost" / "leaked" on correct code; this tool is the guard against that class of false alarm.

usage: tools/gen_selfcheck.py [seeds=25] [fmt ...]
exit 0 = consistent, 1 = inconsistent renderer(s)
"""
import collections
import io
import re
import sys
import zipfile
import zlib

sys.path.insert(0, __file__.rsplit("/", 2)[0])
from vlib import core  # noqa: E402

core.setup_paths()
from vlib.gen import docs  # noqa: E402

TOK = re.compile(rb"q[a-z][0-9]{5}z")
ORDER_FREE = {"xlsx", "xls", "doc", "ppt", "pdf"}    # shared-string tables, piece tables, record stores, object streams: byte order is not reading order


def spellings(data: bytes) -> list[bytes]:
    out = [data]
    if data[:2] == b"PK":
        try:
            z = zipfile.ZipFile(io.BytesIO(data))
            out = [z.read(n) for n in z.namelist()]
        except Exception:
            pass
    if data[:200].lstrip().lower().startswith((b"mime-version", b"from:", b"content-type: multipart")) or b"multipart/related" in data[:600]:
        import email
        for part in email.message_from_bytes(data).walk():
            payload = part.get_payload(decode=True)
            if payload:
                out.append(payload)
    more = []
    for blob in out:
        # UTF-16LE text (OLE2 formats, 7z names): drop the zero high bytes of ASCII runs
        more.append(re.sub(rb"((?:[\x20-\x7e]\x00){3,})", lambda m: b"\x01" + m.group(1)[::2] + b"\x01", blob))
        # flate streams inside PDFs
        for m in re.finditer(rb"stream\r?\n", blob):
            try:
                more.append(zlib.decompressobj().decompress(blob[m.end():m.end() + 1 << 20]))
            except Exception:
                pass
    return out + more, len(out)


def main():
    args = sys.argv[1:]
    seeds = int(args[0]) if args and args[0].isdigit() else 25
    fmts = [a for a in args if not a.isdigit()] or sorted(docs.BUILDERS)
    bad = 0
    total = 0
    for fmt in fmts:
        builder, features = docs.BUILDERS[fmt][0], docs.BUILDERS[fmt][1]
        for feat in [None] + list(features):
            for twin in ([False, True] if feat else [False]):
                for seed in range(seeds):
                    try:
                        data, exp = builder(seed, feat, twin)
                    except Exception as e:
                        print(f"BUILD-ERROR {fmt} {feat} twin={twin} seed={seed}: {type(e).__name__}: {e}")
                        bad += 1
                        continue
                    total += 1
                    recorded = collections.Counter(exp.seq)
                    for s in (exp.outs, exp.ignored, exp.tables_only):
                        for t in s:
                            recorded[t] += 0
                    blobs, n_primary = spellings(data)
                    written = collections.Counter()
                    for b in blobs[: max(1, len(blobs) // 2) if False else len(blobs)]:
                        for t in TOK.findall(b):
                            written[t.decode()] += 1
                    missing = [t for t in recorded if t not in written and t not in exp.ignored]
                    extra = [t for t in written if t not in recorded]
                    # recording order == writing order: inside every written part, the body tokens found there appear in the
                    # order they were recorded (a renderer that draws blocks out of document order makes the oracle say "reordered")
                    disorder = None
                    for b in blobs[:n_primary]:
                        pos = {}
                        for m in TOK.finditer(b):
                            pos.setdefault(m.group(0).decode(), m.start())
                        seq = [t for t in exp.seq if t in pos]
                        for a, c in zip(seq, seq[1:]):
                            if pos[c] < pos[a] and disorder is None:
                                disorder = (a, c)
                    if disorder and fmt not in ORDER_FREE:
                        bad += 1
                        print(f"OUT-OF-ORDER {fmt} feature={feat} twin={twin} seed={seed}: {disorder[1]} is written before {disorder[0]} but recorded after it")
                    if missing or extra:
                        bad += 1
                        print(f"INCONSISTENT {fmt} feature={feat} twin={twin} seed={seed}: recorded-but-not-written={missing[:5]} written-but-not-recorded={extra[:5]}")
    print(f"gen_selfcheck: {total} documents, {bad} inconsistent")
    return 1 if bad else 0


if __name__ == "__main__":
    sys.exit(main())
