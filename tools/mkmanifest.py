#!/usr/bin/env python3
"""Regenerate /verif/MANIFEST.json from the table below (keeps the manifest valid at all times)."""
import json
import os

HERE = os.path.dirname(os.path.dirname(os.path.abspath(__file__)))

BASELINE_OFF = ("cd /repo && env -u SHAREPOINT2TEXT_VERIF /venv/bin/python -m pytest -ra -q -p no:cacheprovider "
                "--timeout=900 --continue-on-collection-errors")

# pid -> (category, technique, level text, level note, design ref)
CHECKS = {
    "C01": ("exploration",
            "exception-surface monitor + CPU-time budget in sandboxed workers over fixtures/generated documents x byte-, ZIP- and markup-aware mutations x 5 entry points",
            "Each of the 21 extractors is driven with unmutated, truncated, bit-flipped, spliced, container-aware-mutated and cross-format inputs, directly and through read_file, the CLI "
            "(text/--json/--json-unit/--binary), as archive member (zip/tar/tgz) and as e-mail attachment; the worker records the escaping exception's MRO, results yielded before, process CPU time "
            "and the CLI's exit status/stdout/stderr. Anything outside the ExtractionError family, a CLI contract breach, a dead interpreter, CPU > 10x(2 s + 4 us/byte), or a worker that sleeps without using CPU until the deadline (blocked forever: self-deadlock) is a violation; the CLI is also run "
            "against a narrow (ASCII) stdout, and its diagnostic must be one line (the program-name line and nothing after it). Hand-made hostile containers (self-referential 7z headers, "
            "counts that cannot be allocated, hrefs that leave the container, member names with line breaks, equations nested 48 deep through every operand slot) complement the mutations.",
            "Termination is restated as bounded progress on CPU time plus the blocked-forever verdict at a 150 s wall deadline; inputs <= 3 MB; RLIMIT_AS 1.5 GiB per worker.",
            "DESIGN.md §8 C01"),
    "C02": ("exploration",
            "ground-truth document generators with unique class-tagged tokens; token oracle (multiset/order/gluing/leakage) over get_full_text() of the real extractors in sandboxed workers",
            "Hand-written writers (never the libraries the extractors read with) render random documents whose every text leaf is a unique token; the oracle tokenises "
            "get_full_text() and decides loss, duplication, reordering, gluing across boundaries, leakage of excluded classes and foreign text; where the writer declares every visible non-token string it emits (RTF, DOCX, PPTX, ODT, ODP, ODG, EPUB, HTML, MHTML), what is left of "
            "the output after tokens, those strings and documented decoration must hold no letter or digit (alien text). Clean documents must be silent; each risky "
            "feature is paired with a control twin. Held on the generated documents only; constructs outside the writers' vocabulary are not covered.",
            "Trusts the writers in vlib/gen (cross-checked by clean cases/twins being silent) and the per-format claim matrix of DESIGN.md Appendix A.",
            "DESIGN.md §8 C02, Appendix A"),
    "C03": ("exploration",
            "ground-truth multi-unit documents; oracle over iterate_units(): count, 1-based strictly increasing numbers, per-unit token attribution, join equality",
            "Generated documents with 1..N pages/slides/sheets (incl. empty ones) and heading structures; every token must be returned by exactly the unit it belongs to "
            "(heading tokens may be covered by heading paths), unit numbers must be the 1-based source positions, and get_full_text() must equal the trimmed newline-join for the formats the property lists - also for every boolean option of get_full_text()/iterate_units() "
            "(found by introspection), exercised on one object as default-set-default and set-default-set: same option value, same text.",
            "Same generators as C02; flowing-text formats may produce one unit or one per heading section.",
            "DESIGN.md §8 C03, Appendix A"),
    "C04": ("exploration",
            "icontract post-conditions installed reflectively on every accessor of every data_types class; workload of fixtures, generated and mutated-but-accepted inputs x path-argument grammar",
            "Record-only icontract post-conditions (text accessors return UTF-8-encodable str, unit/image numbers are positive ints, get_bytes() is a binary stream at position 0 of the reported size, "
            "get_dim() equals the table shape) are evaluated on every accessor call of every result, unit, image and table the workload produces; accessors that raise, file metadata not derived "
            "from the path argument (9 path forms incl. None, non-existent, unicode, archive!/member, existing file) and textual document properties differing from what the generator stored are reported; all image streams of a result are also opened first and read afterwards (no shared stream "
            "objects, same bytes as when read alone), and archive members' folder/path must lie below '<archive path>!'.",
            "Contracts observe only classes the workload reaches (17 content classes required, else inconclusive); properties compared per DESIGN.md Appendix B.",
            "DESIGN.md §8 C04, Appendix B"),
    "C05": ("exploration",
            "round-trip monitor: json.dumps(to_json()) -> from_json -> to_json on every result and unit of the corpus, type-directed instances of every registered dataclass, binary-exclusion walk, CLI JSON comparison",
            "Every result and unit produced from fixtures and generated documents (incl. every risky feature) is serialised with the standard encoder, rebuilt and compared (type, canonical JSON, full text, "
            "units, tables, binary payloads); include_binary=False may differ only at the binary leaves found by walking the object graph; --json/--json-unit/--binary output is compared with the same JSON; "
            "each registered dataclass is instantiated from its type hints with marker-vocabulary strings (incl. strings a constructor normalises, zero-length payloads) and round-tripped; "
            "binary fields are compared as objects (kind and bytes) after the round trip, the path argument is given as str / pathlib.Path / None for existing and non-existing names, "
            "and the CLI writes to a strict UTF-8 stream.",
            "Fields that differ between two fresh in-process extractions (C06's findings) are masked in the CLI comparison so C05 does not re-report them.",
            "DESIGN.md §8 C05"),
    "C06": ("exploration",
            "purity monitor: buffer sha256 before/after, field-level digests of to_json() across two in-process runs and fresh processes under PYTHONHASHSEED 0/1/2/random, random observer words with digest before/between/after",
            "The same (bytes, path) is extracted twice in one process and once per fresh worker process under four hash-seed settings; field-level digests of canonical to_json() must agree everywhere; "
            "the caller's buffer must be unchanged; a seeded random word over 13 observers (full text, units, unit accessors, images, bytes, tables, metadata, to_json) must leave every later observation and the JSON unchanged. Earlier results are kept alive and re-digested after later extractions with other inputs and path arguments (a result, once returned, never changes); context groups of inputs that share a sub-key but differ in the context that gives it meaning. An observer-order oracle compares what each observer returns after the others (in both orders, incl. abandoned iterators) with what it returns on an untouched result.",
            "A relative non-existent path keeps host state out of file metadata; differences are localised two levels deep.",
            "DESIGN.md §8 C06"),
    "C07": ("exploration",
            "recording stubs on the 21 extractor functions + README-derived routing table; path grammar x 5 mimetypes configurations, each in its own worker process",
            "A routing table transcribed by hand from the README decides which extractor every documented extension/alias must reach; a path grammar (all known extensions, case variants, "
            "dots/spaces/unicode/URL/compound forms) is evaluated under default, emptied and hostile MIME databases; is_supported_file == get_extractor-succeeds, only the not-supported error, "
            "alias == base, MIME-independence of routed extensions, and read_file dispatch observed through stubs on real temp files. In-process sequences ask the same paths again after every change of the MIME database (configurations swapped, single types added / removed); fresh processes in which 8 threads ask for a never-imported extractor (or sibling modules of one sub-package) at once; read_file with relative, tilde- and variable-like names; extensions spelled with characters a caseless comparison maps to ASCII letters.",
            "Trusts the README tables as the specification of routing; Windows path semantics are not observable on this host.",
            "DESIGN.md §8 C07"),
    "C08": ("exploration",
            "(plain, protected-or-lookalike) pairs per protection mechanism built from generated documents; exception-surface monitor through four entry points; PDFs encrypted by an independent AES",
            "For OOXML-in-OLE (EncryptionInfo/EncryptedPackage/DataSpaces), ODF manifest encryption-data (two namespace spellings) and look-alike plain manifests, DOC FIB flag, XLS FILEPASS at three record positions, "
            "PPT encrypted-summary streams, ZIP flag bit on first/last/only member, 7z AES coder in the main folder / one of several folders / the encoded header, EPUB encryption.xml / rights.xml / empty encryption.xml, "
            "PDF RC4-40/128 and AES-128/256 with empty and non-empty user password (owner password distinct or equal), and the 11 protected fixtures: the protected member must raise the file-encrypted error before any result through the direct extractor, "
            "read_file, the CLI and, as typed attachment of an .eml, through iterate_supported_attachments(); the plain member must never be rejected as encrypted; an empty-password PDF (a third of them carrying a 20-120 KB picture) must extract the same text/units/images as its original. Wrong-container look-alikes (OLE2 under OOXML/ODF names, "
            "ZIP under legacy names, PDF/RTF under Office names), DOCTYPE manifests with marker words in member paths and ZIP members in an undecodable compression method must not be rejected as encrypted.",
            "Protected OOXML/legacy files are marker containers, not real ciphertext (the property is about rejection before content); PDFs are really encrypted (pypdf writer over the reference AES).",
            "DESIGN.md §8 C08"),
    "C09": ("exploration",
            "CPython audit-hook file-system monitor (open/mkdir/remove/rename/link/chmod/utime/scandir/rmtree/mkdtemp..., dir_fd resolved via /proc/self/fd), canary files, result scan, private-TMPDIR post-state, x 4 consumer behaviours",
            "Archives in 23 layouts over a hostile member-name grammar (absolute, ../ chains, mixed separators, drive letters, empty, very long, unicode, names of existing host files, tar symlink/hardlink/device/fifo members, "
            "7z entries with and without data streams, hidden/fork/nested/unsupported/oversize members), also byte-mutated, are consumed by exhausting, closing early, abandoning and failing in the consumer; every audit event whose "
            "resolved path lies outside the worker's private TMPDIR, a changed canary, canary or host-file text in a result, a non-empty TMPDIR afterwards, or a result from a member that must be skipped is a violation. Nested archives are real archives under every name the router hands to the archive reader (asked at run time); a third of the archives run under a member limit lowered through configure_archive_extraction() and a history of further option calls.",
            "stat()/exists() carry no audit event; interpreter-internal read-only opens (*.py/*.pyc/*.so, mimetypes tables) are excluded.",
            "DESIGN.md §8 C09"),
    "C10": ("exploration",
            "reference-writer archives (zipfile, tarfile, independent 7z writer) over generated member documents; ordered comparison of read_archive results with stand-alone extraction of each member",
            "For 23 layouts (ZIP stored/deflated, TAR plain/gz/bz2/xz, 7z Copy/LZMA/LZMA2 x solid/one-folder-per-file/pairs x plain/encoded header, mixed coders) archives of 0..10 generated documents with "
            "directories, empty, hidden, macOS-fork, unsupported and nested-archive members interleaved are read; results must equal, in archive order, the results of extracting each eligible member's bytes on its own "
            "under the same archive!/member path (canonical to_json), carry the member's file name and path label, and one corrupted member must not change any other member's result. Members come under every spelling of their type the public entry points accept, with repeated names, consecutive dots, highly compressible content, and after option calls that do not mention the member limit.",
            "The 7z writer follows 7zFormat.txt and is validated by the repository's own reader on solid layouts; AES/BCJ2 coders are not produced.",
            "DESIGN.md §8 C10"),
    "C11": ("exploration",
            "reference predicate vs validate_zipfile on a complete boundary lattice (stub infolist + forged real ZIPs) and a zip-order event-log monitor (ZipFile.__init__/open/read vs validation events, matched by content sha1) over all ZIP-container extractors",
            "The five thresholds (+ zero-compressed clause) are decided on every boundary vector (each threshold -1/0/+1, pairs combined, several limit settings, directory entries) three ways: stub infolist, "
            "validate_zip_bytesio on a forged real ZIP (stream position checked), open_zipfile; the event-log checker demands that every member read in the 9 extractors and the ODF encryption probe is preceded by a "
            "successful validation of a ZipFile over the same bytes and that nothing is decompressed before a rejection.",
            "Where the statement is silent (directory entries in the entry count, compressed bytes of empty entries) neither reading is demanded; float ratios are exact for sizes < 2^44.",
            "DESIGN.md §8 C11"),
    "C12": ("exploration",
            "rusage monitor (process CPU time, ru_maxrss delta) in fresh worker processes over 21 amplifier families x series n,2n,4n,8n; log-log slope for size-growing families; audit-hook + RSS probes at the explicit limits",
            "Small inputs whose declared repeat counts, dimensions, nesting depth, property counts, entity definitions or repetition grow are extracted one per fresh process; RSS delta <= 64 MiB + 40 x U and CPU <= 2 s + 2 us x U x log2 U, "
            "and for inputs that grow with n a CPU-over-size exponent <= 1.3; read_file(max_file_size) is probed at limit-1/limit/limit+1 (and 0 = disabled, default 100 MB with a sparse file), the 7z archive limit at 100 MiB / +1, "
            "and the per-member limit at 10 MiB / +1 for zip, tar.gz and 7z (no result, no file written, no RSS growth for the oversize member).",
            "Budgets are an order of magnitude above what well-formed inputs need; cost is bounded-progress on CPU time, never wall-clock.",
            "DESIGN.md §8 C12"),
    "C13": ("exploration",
            "ground-truth tables (token cells and typed values) vs iterate_tables()/get_dim() of the real extractors",
            "Generated r x c grids with empty cells, multi-paragraph and list cells, header rows, merged cells (continuation cells are grid cells), nested tables (also inside content controls), "
            "typed spreadsheet values (numbers in every spelling, booleans, dates in the 1900 and 1904 systems, times, durations); compared cell by cell (tokens / value equality), table count/order and get_dim().",
            "Same generators as C02.",
            "DESIGN.md §8 C13"),
    "C14": ("exploration",
            "generated PNG/JPEG/GIF/BMP files embedded by hand-written writers; sha1/type/size/number/unit oracle over iterate_images() and unit.get_images()",
            "Every placed image must come back bit-exact, in document order, numbered 1..n, with the right content type, pixel size (where the format reports the file's own size) and on the right unit; "
            "unit-level images must be a sub-view of the document iterator and coincide for page/slide/sheet formats. JPEGs come in six segment layouts, pictures are shared between pages/slides/sheets, "
            "stored under untyped or upper-case names, sized in every ODF length unit, anchored without extent, or missing from the package.",
            "Same generators as C02; vlib/gen/images.py writes valid minimal raster containers.",
            "DESIGN.md §8 C14"),
    "C15": ("exploration",
            "controlled scheduler (token passing at every access to the patched pypdf module attribute and at scheduler-aware replacements of the extractor's module-level locks, DFS over schedules) + 8-thread preemptive stress with 1 us switch interval + random extraction histories, all judged by a global-state snapshot and digests vs fresh-process baselines",
            "All interleavings of two threads through the real patch/extract/restore section of PDF text extraction are enumerated (complete DFS), three threads preemption-bounded plus random schedules; after each schedule the "
            "patched function must be the original again and no thread may see the original inside its own section. A mixed PDF-heavy workload runs in 8 preempted threads and in random single-process histories (incl. failing inputs); "
            "histories run over context groups (inputs sharing a sub-key whose meaning depends on the document: code page, part name, style id, rId, optional parts absent); "
            "results must equal baselines computed in fresh processes and the snapshot (patched function identity and wrapper depth, archive configuration, private TMPDIR, threads, open handles) must be restored.",
            "Scheduling points are the accesses to the patched attribute; races inside C-level calls are out of reach; the one-way AES provider patch is documented and excluded.",
            "DESIGN.md §8 C15"),
    "C16": ("exploration",
            "stdlib-generated RFC 5322/MIME messages and mboxrd mailboxes with unique tokens; per-field oracle on read_eml/read_mbox results, eml-vs-mbox cross-check, attachments vs direct extraction",
            "Messages over random header sets, RFC 2047 B/Q words in five charsets, folded headers, address lists with quoted commas and groups, four transfer encodings, nested multiparts and 0..4 attachments "
            "(incl. fixture documents and nested .eml) are extracted through both carriers; subject, addresses with display names, date (as an instant), message-id, bodies, attachment name/type/bytes, mailbox count/order/boundaries "
            "and iterate_supported_attachments() vs extracting the attached bytes directly are compared exactly (CRLF/LF and the writer's own >From escaping are transport).",
            "No exactness claim for .msg (no independent writer): the two fixtures are only run through the accessors. Mailboxes are written in three escape styles (mboxrd, mboxo, look-alikes only) and the oracle knows which.",
            "DESIGN.md §8 C16"),
    "C17": ("exploration",
            "grammar-generated HTML bodies with unique visible/hidden tokens through four carriers (html, mhtml, epub chapter, MSG html-to-text helper) in sandboxed workers; token oracle",
            "A grammar of visible blocks interleaved with removable elements (script/style/noscript/iframe/object/embed/applet, comments) whose content ranges over text, void tags, self-closing forms, "
            "nested removable elements, unbalanced end tags and CDATA; hidden tokens must never appear, visible tokens before/after must all survive. Constructs whose inside/outside is debatable are kept out of the judged set.",
            "The MSG carrier is a minimal Outlook .msg written with vlib/gen/cfb.py and read through read_msg_format_mail; EPUB chapters are also judged behind a chapter that ends in one of 23 open-ended ways.",
            "DESIGN.md §8 C17"),
    "C18": ("fault_enumeration",
            "simulated Graph service behind request_func with close/read counters; reference walk + independent filter implementation; complete enumeration of (request index x fault kind) per listing run, each followed by a healthy retry",
            "Random document libraries (trees, paging, names needing quoting, missing fields, named drives, folder filters, timestamps at the filter bounds) are listed through the real client against a simulated Graph "
            "service; results are compared as multisets with an independent reference walk; then for every request position of the fault-free sequence and every fault kind (HTTP 4xx/5xx, URLError, truncated/non-JSON, "
            "non-2xx without exception, wrong top-level type, non-UTF-8, OSError, read failure) the exception family, status/url, close() of every opened response and the completeness of a retry are judged.",
            "Positions x kinds are enumerated completely per library (large libraries fault-free only); the simulator implements only the endpoints the client calls.",
            "DESIGN.md §8 C18"),
    "C19": ("exploration",
            "icontract snapshot + post-condition on the real omml_to_latex (three bindings) evaluated on bounded-exhaustive and random OMML trees; independent reference renderer and symbol table",
            "All trees up to depth 3 / width 2 over the converter's 11 structural elements with every optional child and attribute present or absent, plus random deeper trees and formulas embedded in generated docx/pptx: "
            "the conversion must return a str within a CPU budget, be deterministic and leave the input tree unchanged, emit every run's text once and in order (mapped symbols through a hand-written table), balance braces, "
            "and match the documented template where the tests/README define one (otherwise the tree is counted as unclaimed).",
            "Documented malformed-radical forms are judged for totality and balance only; undocumented defaults are unclaimed.",
            "DESIGN.md §8 C19"),
    "C20": ("exploration",
            "icontract post-conditions on the real AES mode functions vs an independent FIPS-197 reference; finite tables enumerated",
            "Every call of the real aes_ecb/cbc_encrypt/decrypt (direct, through pypdf's patched bindings and CryptAES) is compared by a "
            "runtime contract with an independently written AES; S-box/inverse/xN tables, ShiftRows positions and a MixColumns GF(2) basis are "
            "enumerated completely; FIPS-197/SP800-38A known answers; wrapper round-trips for every length 0..64; wrong lengths must raise ValueError; four concurrent callers (10 us switch interval) are compared block by block with reference answers. "
            "Held on the sampled (key, iv, message) triples only.",
            "Trusts vlib/gen/aes_ref.py (self-tested against the embedded FIPS known answers on every run) and CPython.",
            "DESIGN.md §8 C20"),
}

NOT_YET = "check not built yet in this round (planned, see DESIGN.md §8); not claimed until it is silent on the unchanged tree"
NOT_APPLICABLE = {}


def main():
    props = [json.loads(l)["id"] for l in open(os.path.join(HERE, "properties.jsonl"))]
    checks = []
    for pid in props:
        if pid not in CHECKS:
            continue
        cat, tech, text, note, ref = CHECKS[pid]
        checks.append({
            "property_id": pid,
            "quick_cmd": f"./check {pid} --tier quick",
            "thorough_cmd": f"./check {pid} --tier thorough",
            "evidence_file": f"evidence/{pid}.json",
            "replay_cmd_template": f"./check {pid} --replay {{path}}",
            "engine": "runtime-monitor",
            "level_claimed": {"category": cat, "text": text, "design_ref": ref},
            "level_note": note,
            "technique": tech,
        })
    na = [{"property_id": p, "reason": NOT_APPLICABLE.get(p, NOT_YET)} for p in props if p not in CHECKS]
    hooks_commits = []
    hp = os.path.join(HERE, "hooks_commits.txt")
    if os.path.exists(hp):
        hooks_commits = [l.split()[0] for l in open(hp) if l.strip() and not l.startswith("#")]
    m = {
        "version": 1,
        "setup_cmd": "/venv/bin/pip install --quiet --no-index --find-links /opt/veriftools/wheels --target /verif/.deps icontract",
        "hooks": {
            "guard": "SHAREPOINT2TEXT_VERIF",
            "enable": "environment variable SHAREPOINT2TEXT_VERIF=1 (set by ./check for itself and every worker); the repository is imported from /repo's working tree, nothing is built",
            "baseline_off_cmd": BASELINE_OFF,
            "source_commits": hooks_commits,
            "add_only": True,
        },
        "engines": [{
            "name": "runtime-monitor",
            "path": "check",
            "serves_properties": [c["property_id"] for c in checks],
            "kind_free_text": "Python harness: sandboxed worker processes run the real extractors on generated/hostile workloads while monitors "
                              "(icontract contracts, audit hooks, event-log checkers, controlled scheduler, reference models) observe; see DESIGN.md",
        }],
        "checks": checks,
        "not_applicable": na,
        "notes": "All checks: exit 0 held / 1 VIOLATION / 2 INCONCLUSIVE (monitor did not observe enough). Known findings are listed in known_findings.json.",
    }
    with open(os.path.join(HERE, "MANIFEST.json"), "w") as f:
        json.dump(m, f, indent=1)
        f.write("\n")


if __name__ == "__main__":
    main()
