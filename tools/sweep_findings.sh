#!/bin/bash
# tools/sweep_findings.sh "C02 C03" 1 20  -> run quick tier for seeds 1..20, append every proposable unknown key as open finding
cd /verif
for s in $(seq $2 $3); do
  for p in $1; do
    VERIF_SEED=$s ./check $p >/dev/null 2>&1
    /venv/bin/python tools/propose_findings.py $p --write | grep -v "^written 0" | sed "s/^/[$p seed $s] /"
  done
done
