#!/usr/bin/env python3
"""Validate MANIFEST.json and every evidence file against the schemas (run with python3-vt)."""
import json, sys, glob
import jsonschema
ok = True
m = json.load(open('/verif/MANIFEST.json'))
jsonschema.validate(m, json.load(open('/root/.vp/MANIFEST.schema.json')))
es = json.load(open('/root/.vp/EVIDENCE.schema.json'))
claimed = {c['property_id'] for c in m['checks']}
na = {c['property_id'] for c in m.get('not_applicable', [])}
props = [json.loads(l)['id'] for l in open('/verif/properties.jsonl')]
for p in props:
    if (p in claimed) == (p in na):
        print('property', p, 'claimed' if p in claimed else 'neither claimed nor not_applicable'); ok = ok and (p in claimed) != (p in na)
for c in m['checks']:
    try:
        ev = json.load(open('/verif/' + c['evidence_file']) if not c['evidence_file'].startswith('/') else open(c['evidence_file']))
        jsonschema.validate(ev, es)
        assert ev['level'] == c['level_claimed']['category'], (ev['level'], c['level_claimed']['category'])
    except Exception as e:
        print('evidence', c['property_id'], 'INVALID', str(e)[:200]); ok = False
print('OK' if ok else 'PROBLEMS')
sys.exit(0 if ok else 1)
