#!/bin/bash
# tools/eval_mutants.sh <Cnn> <tier> [extra checks...]: evaluate /tmp/mutants/Cnn/{a,b}.diff with the property's own check (+ extras)
id=$1; tier=$2; shift 2
for x in a b; do
  [ -f /tmp/mutants/$id/$x.diff ] || continue
  echo "=== $id $x ($tier)"
  tools/try_mutant.sh /tmp/mutants/$id/$x.diff /tmp/mutants/$id/demo_$x.py $tier $id "$@" 2>&1 | cut -c1-330
done | tee .work/mut/${id}_$tier.log
